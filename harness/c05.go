package main

import (
	"bytes"
	"fmt"
	"regexp"
	"strconv"
	"strings"

	"github.com/jsightapi/jsight-api-go-library/directive"
)

func init() {
	props["C05"] = &propCheck{
		lean: []string{"JSight.Props.C05", "JSight.Props.C05_Parens"},
		exes: []string{"jsight-scan", "jsight-ctx"},
		run:  runC05,
		rule: "generated documents, each rendered in a plain style and in several random styles (line/block comments and blank lines at directive boundaries, indentation incl. tabs, trailing blanks, LF/CRLF/CR, optional quotes, optional parentheses, // vs /* */ annotations); non-trivial = the rewrite changes the bytes; distinct = distinct pair of renderings",
		assume: []string{
			"the global statement is the composition of the local scanner lemmas along a run; the composition across the library's look-ahead (Len reads the rest of the file) is validated by this metamorphic search, not proved",
		},
		trusted: []string{"the harness-side renderer (it decides what counts as 'the same document in another spelling')"},
	}
}

func runC05(ctx *Ctx) {
	r := ctx.Rng.Fork()
	n := ctx.Budget(600, 40000)
	styles := ctx.Len(4, 12)
	for i := 0; i < n && len(ctx.Violations) < 10; i++ {
		m := GenModel(r)
		base, _ := m.Render(PlainStyle(), true)
		b0 := RunProject(SingleFile(base), false)
		for k := 0; k < styles; k++ {
			st := RandomStyle(r.Fork())
			alt, _ := m.Render(st, true)
			ctx.Cov.Count(append(append([]byte{}, base...), alt...), !bytes.Equal(base, alt))
			ctx.Cov.Hit("newline style " + map[string]string{"\n": "LF", "\r\n": "CRLF", "\r": "CR"}[st.NL])
			b1 := RunProject(SingleFile(alt), false)
			if i == 0 && k == 0 {
				ctx.Cov.Sample(map[string]any{"plain": string(base), "rewritten": string(alt), "verdicts": []string{b0.Verdict(), b1.Verdict()}})
			}
			same := b0.Accepted() == b1.Accepted() && bytes.Equal(b0.JSON, b1.JSON)
			if !same {
				in := projectInput(SingleFile(alt))
				in["op"] = "rewrite"
				in["plain"] = hx(base)
				what := fmt.Sprintf("rewriting the surface syntax changes the result: plain: %s; rewritten: %s", b0.Verdict(), b1.Verdict())
				if b0.Accepted() && b1.Accepted() {
					what = "rewriting the surface syntax changes the catalog: " + firstDiff(b0.JSON, b1.JSON)
				}
				ctx.Violate(Violation{Kind: "wrong-output", Site: "surface syntax", What: what, Input: in,
					Observed: b1.Verdict(), Expected: b0.Verdict(), Signature: "rewrite"})
			}
		}
	}
	ctx.Cov.Component("plain rendering vs rewritten renderings (verdict and JSON must be identical)", ctx.Cov.Evaluations, len(ctx.Violations), "")
	commentShapes(ctx)
	parensSearch(ctx, r)
}

var reNum = regexp.MustCompile(`\d+`)

// parensSearch: "putting a directive's children in explicit parentheses when they would nest there anyway" on
// directive sequences (macros included): the model computes where the ")" goes (C05P.markForest / insertParens,
// proved to resolve to the same forest); the REAL scan phase and paste phase must give the same forest for the
// rewritten sequence.
func parensSearch(ctx *Ctx, r *Rng) {
	m, err := ctx.Model("jsight-ctx")
	if err != nil {
		ctx.Break("parentheses: model not available: " + err.Error())
		return
	}
	n := ctx.Budget(4000, 200000)
	type cs struct {
		toks []CTok
		mark int
		run  ctxRun
	}
	var cases []cs
	var reqs []string
	// all short sequences over the shapes that matter for nesting (macro, URL, method with and without a path,
	// response, type; with and without parentheses), then longer plausible ones
	small := []CTok{{Kind: int(directive.Macro), Name: 1}, {Kind: int(directive.Macro), Name: 1, Explicit: true}, {Kind: int(directive.URL), HasPath: true},
		{Kind: int(directive.URL), HasPath: true, Explicit: true}, {Kind: int(directive.Get)}, {Kind: int(directive.Get), HasPath: true},
		{Kind: int(directive.Post), HasPath: true}, {Kind: int(directive.HTTPResponseCode)}, {Kind: int(directive.Type)}, {Close: true}}
	var seqs [][]CTok
	enumCToks(small, ctx.Len(4, 5), func(t []CTok) { seqs = append(seqs, append([]CTok(nil), t...)) })
	for i := 0; i < n; i++ {
		seqs = append(seqs, plausibleCToks(r, 3+r.Intn(10), r.Bool()))
	}
	for _, tt := range seqs {
		var cands []int
		for k, t := range tt {
			if !t.Close && !t.Explicit && canExplicit(directive.Enumeration(t.Kind)) {
				cands = append(cands, k)
			}
		}
		if len(cands) == 0 {
			continue
		}
		run := runCtx(tt)
		if run.Other || run.Panic != "" || !strings.HasPrefix(run.Scan, "ok") {
			ctx.Cov.Hit("parentheses: sequence not accepted by the scan phase")
			continue
		}
		mk := cands[r.Intn(len(cands))]
		cases = append(cases, cs{tt, mk, run})
		reqs = append(reqs, fmt.Sprintf("parens %d %s", mk, ctoksProto(tt)))
	}
	outs, err := m.Batch(reqs)
	if err != nil {
		ctx.Break("parentheses: " + err.Error())
		return
	}
	bad, dis := 0, 0
	for k, out := range outs {
		c := cases[k]
		if !strings.HasPrefix(out, "ok") {
			// the model does not accept a sequence the implementation accepts: the tree correspondence (C06) reports it
			ctx.Cov.Hit("parentheses: model refuses the sequence")
			dis++
			continue
		}
		var marked []CTok
		var orig []int // marked index -> original index
		for _, f := range strings.Fields(out)[1:] {
			if f == ")" {
				marked = append(marked, CTok{Close: true})
				orig = append(orig, -1)
				continue
			}
			id, _ := strconv.Atoi(f)
			t := c.toks[id]
			if id == c.mark {
				t.Explicit = true
			}
			marked = append(marked, t)
			orig = append(orig, id)
		}
		run2 := runCtx(marked)
		back := func(s string) string {
			return reNum.ReplaceAllStringFunc(s, func(x string) string {
				v, _ := strconv.Atoi(x)
				if v < len(orig) && orig[v] >= 0 {
					return strconv.Itoa(orig[v])
				}
				return "?" + x
			})
		}
		ctx.Cov.Count([]byte(reqs[k]), len(c.toks) >= 4)
		ctx.Cov.Hit("parentheses: rewritten sequences")
		scan2, paste2 := run2.Scan, run2.Paste
		if strings.HasPrefix(scan2, "ok") {
			scan2 = back(scan2)
		}
		if strings.HasPrefix(paste2, "ok") {
			paste2 = back(paste2)
		}
		pasteSame := paste2 == c.run.Paste || (!strings.HasPrefix(paste2, "ok") && !strings.HasPrefix(c.run.Paste, "ok"))
		// With MACRO definitions in the sequence the forest after expansion is the re-resolution of the text with
		// the definitions deleted (C07): a directive that follows a definition may nest into the directive before
		// it, which the position of the ")" computed from the scan-phase forest cannot know. The expanded forests are
		// compared for macro-free sequences only; the scan-phase forests always.
		for _, t := range c.toks {
			if !t.Close && directive.Enumeration(t.Kind) == directive.Macro {
				pasteSame = true
			}
		}
		if run2.Panic != "" || scan2 != c.run.Scan || !pasteSame {
			bad++
			content, _ := renderCToks(marked)
			content0, _ := renderCToks(c.toks)
			in := projectInput(SingleFile(content))
			in["op"] = "parens"
			in["original"] = string(content0)
			ctx.Violate(Violation{Kind: "wrong-output", Site: "core.processContext",
				What:     fmt.Sprintf("putting the children of directive %d in parentheses changes the tree: %s / %s, without them %s / %s", c.mark, scan2, paste2, c.run.Scan, c.run.Paste),
				Input:    in, Observed: scan2 + " | " + paste2, Expected: c.run.Scan + " | " + c.run.Paste, Signature: "parens-change-tree"})
		}
	}
	ctx.Cov.Component("a directive's children put in parentheses (position of the \")\" computed by the model): real scan and paste phases give the same forest", len(outs), bad, fmt.Sprintf("%d sequences refused by the model", dis))
}

func firstDiff(a, b []byte) string {
	i := 0
	for i < len(a) && i < len(b) && a[i] == b[i] {
		i++
	}
	lo := i - 60
	if lo < 0 {
		lo = 0
	}
	ha, hb := i+80, i+80
	if ha > len(a) {
		ha = len(a)
	}
	if hb > len(b) {
		hb = len(b)
	}
	return fmt.Sprintf("…%s… vs …%s…", a[lo:ha], b[lo:hb])
}


// commentShapes: every SHAPE of a comment line — empty "#", "##", runs of '#', block comments whose text begins or ends
// with '#', on one line or over several — inserted at every kind of place between directives: after a keyword line,
// after a parameter line, after a parenthesis, and directly after a schema / enum / regex body (where the comment is
// first seen by the schema library, which delimits the body). The document with the comment must give the result of
// the document without it. A failure is identified by the place class and the shape ("comment:<place>:<shape>").
func commentShapes(ctx *Ctx) {
	shapes := []struct{ id, text string }{
		{"empty-hash", "#"}, {"hash-blank", "# "}, {"hash-text", "# x"}, {"hash-hash-text", "# x # y"}, {"double-hash", "##"}, {"double-hash-text", "## x"},
		{"block-one-line", "### x ###"}, {"block-empty", "######"}, {"block-lines", "###\nx\nGET /n\n###"}, {"block-then-hash", "### x ####"},
		{"four-hash-block", "#### x ###"}, {"four-hash-both", "#### x ####"}, {"five-hash-block", "##### x ###"}, {"four-hash-lines", "####\nx\n###"},
		{"block-inner-hash", "### a # b ## c ###"},
	}
	type place struct {
		id, before, after string
		body              bool
	}
	places := []place{
		{"after-keyword-line", "JSIGHT 0.3\nINFO\n", "  Title \"t\"\nGET /a\n  200 any\n", false},
		{"after-parameter-line", "JSIGHT 0.3\nGET /a\n", "  200 any\nTYPE @b\n{}\n", false},
		{"after-any-body", "JSIGHT 0.3\nGET /a\n  200 any\n", "TYPE @b\n{}\n", false},
		{"after-open-paren", "JSIGHT 0.3\nGET /a\n(\n", "  200 any\n)\nTYPE @b\n{}\n", false},
		{"after-close-paren", "JSIGHT 0.3\nGET /a\n(\n  200 any\n)\n", "TYPE @b\n{}\n", false},
		{"at-end-of-file", "JSIGHT 0.3\nGET /a\n  200 any\n", "", false},
		{"after-schema-body", "JSIGHT 0.3\nTYPE @a\n{\"b\": 0}\n", "TYPE @b\n{}\nGET /a\n  200 @a\n", true},
		{"after-response-schema", "JSIGHT 0.3\nGET /a\n  200\n  {\"b\": 0}\n", "  404 any\nTYPE @b\n{}\n", true},
		{"after-enum-body", "JSIGHT 0.3\nENUM @e\n[1, 2]\n", "TYPE @b\n{}\nGET /a\n  200 any\n", true},
		{"after-regex-body", "JSIGHT 0.3\nTYPE @a regex\n/ab/\n", "TYPE @b\n{}\nGET /a\n  200 any\n", true},
		{"after-schema-at-end-of-file", "JSIGHT 0.3\nGET /a\n  200 any\nTYPE @a\n{\"b\": 0}\n", "", true},
	}
	cases, bad := 0, 0
	for _, pl := range places {
		plain := RunProject(SingleFile([]byte(pl.before+pl.after)), false)
		if !plain.Accepted() {
			ctx.Break("comment shapes: the plain document of place " + pl.id + " is not accepted: " + plain.Verdict())
			continue
		}
		for _, sh := range shapes {
			for _, ind := range []string{"", "  "} {
				for _, nl := range []string{"\n", "\r\n"} {
					doc := pl.before + ind + sh.text + "\n" + pl.after
					if nl != "\n" {
						doc = strings.ReplaceAll(doc, "\n", nl)
					}
					res := RunProject(SingleFile([]byte(doc)), false)
					cases++
					ctx.Cov.Count([]byte(doc), true)
					ctx.Cov.Hit("comment shape at " + pl.id)
					if res.Panic != "" {
						continue
					}
					if res.Accepted() != plain.Accepted() || !bytes.Equal(res.JSON, plain.JSON) {
						bad++
						in := projectInput(SingleFile([]byte(doc)))
						in["op"] = "rewrite"
						in["plain"] = hx([]byte(pl.before + pl.after))
						what := fmt.Sprintf("the comment %q %s changes the result: without it: %s; with it: %s", sh.text, strings.ReplaceAll(pl.id, "-", " "), plain.Verdict(), res.Verdict())
						if res.Accepted() {
							what = fmt.Sprintf("the comment %q %s changes the catalog: %s", sh.text, strings.ReplaceAll(pl.id, "-", " "), firstDiff(plain.JSON, res.JSON))
						}
						cls := "between-directives"
						if pl.body {
							cls = "after-library-body"
						}
						ctx.Violate(Violation{Kind: "wrong-output", Site: "comments", What: what, Input: in, Observed: res.Verdict(), Expected: plain.Verdict(),
							Signature: "comment:" + cls + ":" + sh.id})
					}
				}
			}
		}
	}
	ctx.Cov.Component("comment shapes (empty, runs of #, block comments beginning / ending with #) at every kind of place between directives", cases, bad, "")
	sameLineComments(ctx)
}

// sameLineComments: a comment on the SAME line as the end of something — after the closing bracket of an ENUM body,
// after a schema body, after a regex body, after a keyword line, after a parenthesis — with and without a gap, with
// every line end and at the end of the file without a final newline.  Deleting the comment must change nothing.
func sameLineComments(ctx *Ctx) {
	type place struct{ id, before, after string }
	places := []place{
		{"enum-body", "JSIGHT 0.3\nGET /a\n  200 any\nENUM @e\n  [\"cat\", \"dog\"]", "\nTYPE @b\n{}\n"},
		{"enum-body-lines", "JSIGHT 0.3\nGET /a\n  200 any\nENUM @e\n[\n  1,\n  2\n]", "\nTYPE @b\n{}\n"},
		{"enum-body-at-end-of-file", "JSIGHT 0.3\nGET /a\n  200 any\nENUM @e\n[1, 2]", ""},
		{"schema-body", "JSIGHT 0.3\nTYPE @a\n{\"b\": 0}", "\nTYPE @b\n{}\nGET /a\n  200 @a\n"},
		{"response-schema", "JSIGHT 0.3\nGET /a\n  200\n  {\"b\": 0}", "\n  404 any\n"},
		{"regex-body", "JSIGHT 0.3\nTYPE @a regex\n/ab/", "\nGET /a\n  200 any\n"},
		{"keyword-line", "JSIGHT 0.3\nINFO", "\n  Title \"t\"\nGET /a\n  200 any\n"},
		{"parameter-line", "JSIGHT 0.3\nGET /a", "\n  200 any\n"},
		{"open-paren", "JSIGHT 0.3\nGET /a\n(", "\n  200 any\n)\n"},
		{"close-paren", "JSIGHT 0.3\nGET /a\n(\n  200 any\n)", "\nTYPE @b\n{}\n"},
		{"version-line", "JSIGHT 0.3", "\nGET /a\n  200 any\n"},
	}
	comments := []struct{ id, text string }{
		{"hash-text", "# the kinds we know"}, {"empty-hash", "#"}, {"block-one-line", "### x ###"}, {"block-lines", "### x\ny\n###"}, {"double-hash-text", "## x"},
	}
	cases, bad := 0, 0
	for _, pl := range places {
		plain := RunProject(SingleFile([]byte(pl.before+pl.after)), false)
		if !plain.Accepted() {
			ctx.Break("same-line comments: the plain document of place " + pl.id + " is not accepted: " + plain.Verdict())
			continue
		}
		for _, cm := range comments {
			for _, gap := range []string{" ", "\t", "   "} {
				for _, nl := range []string{"\n", "\r\n", "\r"} {
					doc := pl.before + gap + cm.text + pl.after
					if nl != "\n" {
						doc = strings.ReplaceAll(doc, "\n", nl)
					}
					res := RunProject(SingleFile([]byte(doc)), false)
					cases++
					ctx.Cov.Count([]byte(doc), true)
					ctx.Cov.Hit("same-line comment after " + pl.id)
					if res.Panic != "" {
						continue
					}
					if res.Accepted() != plain.Accepted() || !bytes.Equal(res.JSON, plain.JSON) {
						bad++
						in := projectInput(SingleFile([]byte(doc)))
						in["op"] = "rewrite"
						in["plain"] = hx([]byte(pl.before + pl.after))
						what := fmt.Sprintf("the comment %q on the line of the %s changes the result: without it: %s; with it: %s", cm.text, strings.ReplaceAll(pl.id, "-", " "), plain.Verdict(), res.Verdict())
						if res.Accepted() {
							what = fmt.Sprintf("the comment %q on the line of the %s changes the catalog: %s", cm.text, strings.ReplaceAll(pl.id, "-", " "), firstDiff(plain.JSON, res.JSON))
						}
						sig := "comment:same-line:" + pl.id + ":" + cm.id
						if pl.id == "schema-body" || pl.id == "response-schema" {
							// the schema library's Len() reads on after the body: its comment grammar, not the scanner's (F41)
							sig = "comment:same-line-after-library-body:" + cm.id
						}
						ctx.Violate(Violation{Kind: "wrong-output", Site: "comments", What: what, Input: in, Observed: res.Verdict(), Expected: plain.Verdict(),
							Signature: sig})
					}
				}
			}
		}
	}
	ctx.Cov.Component("a comment on the same line as the end of an ENUM / schema / regex body, a keyword line, a parenthesis", cases, bad, "")
}
