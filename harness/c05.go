package main

import (
	"bytes"
	"fmt"
)

func init() {
	props["C05"] = &propCheck{
		lean: []string{"JSight.Props.C05"},
		exes: []string{"jsight-scan"},
		run:  runC05,
		rule: "generated documents, each rendered in a plain style and in several random styles (line/block comments and blank lines at directive boundaries, indentation incl. tabs, trailing blanks, LF/CRLF/CR, optional quotes, optional parentheses, // vs /* */ annotations); non-trivial = the rewrite changes the bytes; distinct = distinct pair of renderings",
		assume: []string{
			"the global statement is the composition of the local scanner lemmas along a run; the composition across the library's look-ahead (Len reads the rest of the file) is validated by this metamorphic search, not proved",
		},
		trusted: []string{"the harness-side renderer (it decides what counts as 'the same document in another spelling')"},
	}
}

func runC05(ctx *Ctx) {
	r := ctx.Rng.Fork()
	n := ctx.Budget(600, 40000)
	styles := ctx.Len(4, 12)
	for i := 0; i < n && len(ctx.Violations) < 10; i++ {
		m := GenModel(r)
		base, _ := m.Render(PlainStyle(), true)
		b0 := RunProject(SingleFile(base), false)
		for k := 0; k < styles; k++ {
			st := RandomStyle(r.Fork())
			alt, _ := m.Render(st, true)
			ctx.Cov.Count(append(append([]byte{}, base...), alt...), !bytes.Equal(base, alt))
			ctx.Cov.Hit("newline style " + map[string]string{"\n": "LF", "\r\n": "CRLF", "\r": "CR"}[st.NL])
			b1 := RunProject(SingleFile(alt), false)
			if i == 0 && k == 0 {
				ctx.Cov.Sample(map[string]any{"plain": string(base), "rewritten": string(alt), "verdicts": []string{b0.Verdict(), b1.Verdict()}})
			}
			same := b0.Accepted() == b1.Accepted() && bytes.Equal(b0.JSON, b1.JSON)
			if !same {
				in := projectInput(SingleFile(alt))
				in["op"] = "rewrite"
				in["plain"] = hx(base)
				what := fmt.Sprintf("rewriting the surface syntax changes the result: plain: %s; rewritten: %s", b0.Verdict(), b1.Verdict())
				if b0.Accepted() && b1.Accepted() {
					what = "rewriting the surface syntax changes the catalog: " + firstDiff(b0.JSON, b1.JSON)
				}
				ctx.Violate(Violation{Kind: "wrong-output", Site: "surface syntax", What: what, Input: in,
					Observed: b1.Verdict(), Expected: b0.Verdict(), Signature: "rewrite"})
			}
		}
	}
	ctx.Cov.Component("plain rendering vs rewritten renderings (verdict and JSON must be identical)", ctx.Cov.Evaluations, len(ctx.Violations), "")
}

func firstDiff(a, b []byte) string {
	i := 0
	for i < len(a) && i < len(b) && a[i] == b[i] {
		i++
	}
	lo := i - 60
	if lo < 0 {
		lo = 0
	}
	ha, hb := i+80, i+80
	if ha > len(a) {
		ha = len(a)
	}
	if hb > len(b) {
		hb = len(b)
	}
	return fmt.Sprintf("…%s… vs …%s…", a[lo:ha], b[lo:hb])
}
