package main

import (
	"fmt"
	"strings"

	"github.com/jsightapi/jsight-api-go-library/core"
	"github.com/jsightapi/jsight-api-go-library/directive"
	"github.com/jsightapi/jsight-schema-go-library/fs"
)

// Name-level registry correspondence (Model/Registry.lean): a document seen as its list of named
// declarations; at most one duplicated (collection, key) pair per document, so that the phase in which
// the real pipeline checks each collection does not matter.

type regDecl struct {
	coll byte // t e s g m u i
	key  int
}

func renderRegDecls(ds []regDecl) (string, []int) {
	var b strings.Builder
	b.WriteString("JSIGHT 0.3\n")
	var lines []int // 1-based line of each declaration's keyword
	line := 2
	emit := func(s string) {
		b.WriteString(s)
		line += strings.Count(s, "\n")
	}
	for i, d := range ds {
		lines = append(lines, line)
		switch d.coll {
		case 't':
			emit(fmt.Sprintf("TYPE @t%d\n{\"p%d\": 1}\n", d.key, i))
		case 'e':
			emit(fmt.Sprintf("ENUM @e%d\n[%d]\n", d.key, i))
		case 's':
			emit(fmt.Sprintf("SERVER @s%d\n  BaseUrl \"http://h%d\"\n", d.key, i))
		case 'g':
			emit(fmt.Sprintf("TAG @g%d\n", d.key))
		case 'm':
			emit(fmt.Sprintf("MACRO @m%d\n(\n  SERVER @ms%d\n    BaseUrl \"http://m\"\n)\n", d.key, i))
		case 'u':
			emit(fmt.Sprintf("URL /u%d\n  PUT\n    200 any // %d\n", d.key, i))
		case 'i':
			emit(fmt.Sprintf("GET /i%d\n  200 any // %d\n", d.key, i))
		}
	}
	return b.String(), lines
}

func regCorrespondence(ctx *Ctx, r *Rng, n int) {
	colls := []byte("tesgmui")
	reqs := make([]string, 0, n)
	impl := make([]string, 0, n)
	for k := 0; k < n; k++ {
		m := 1 + r.Intn(8)
		var ds []regDecl
		used := map[regDecl]bool{}
		for len(ds) < m {
			d := regDecl{colls[r.Intn(len(colls))], 1 + r.Intn(6)}
			if used[d] {
				continue
			}
			used[d] = true
			ds = append(ds, d)
		}
		if r.Chance(1, 2) && len(ds) > 0 { // one duplicate, inserted at a random later position
			src := r.Intn(len(ds))
			pos := src + 1 + r.Intn(len(ds)-src)
			dup := ds[src]
			ds = append(ds[:pos], append([]regDecl{dup}, ds[pos:]...)...)
		}
		var args []string
		for _, d := range ds {
			args = append(args, fmt.Sprintf("%c:%d", d.coll, d.key))
		}
		doc, lines := renderRegDecls(ds)
		res := RunProject(SingleFile([]byte(doc)), false)
		var got string
		switch {
		case res.Panic != "":
			got = "panic"
		case res.Err != nil:
			idx := -1
			for i, l := range lines {
				if int(res.Err.Line) >= l {
					idx = i
				}
			}
			got = fmt.Sprintf("err %d", idx)
		default:
			v, _, err := ParseOJSON(res.JSON)
			if err != nil {
				got = "bad json"
				break
			}
			keysOf := func(coll, prefix string) string {
				var kk []string
				for _, k := range v.Get(coll).Keys() {
					if strings.HasPrefix(k, prefix) {
						kk = append(kk, strings.TrimPrefix(k, prefix))
					}
				}
				return strings.Join(kk, ",")
			}
			var ii []string
			for _, k := range v.Get("interactions").Keys() {
				if strings.HasPrefix(k, "http GET /i") {
					ii = append(ii, strings.TrimPrefix(k, "http GET /i"))
				}
			}
			got = "ok t=" + keysOf("userTypes", "@t") + " e=" + keysOf("userEnums", "@e") + " s=" + keysOf("servers", "@s") + " g=" + keysOf("tags", "@g") + " i=" + strings.Join(ii, ",")
		}
		reqs = append(reqs, "reg "+strings.Join(args, " "))
		impl = append(impl, got)
	}
	Corr(ctx, "named declarations: verdict, offending declaration and entry order vs Model.Registry", "jsight-model", reqs, func(i int) string { return impl[i] })
}

// ban correspondence (Model/Bans.lean): scan phase with a ban set on context-level token sequences
func banCorrespondence(ctx *Ctx, r *Rng, n int) {
	reqs := make([]string, 0, n)
	impl := make([]string, 0, n)
	for k := 0; k < n; k++ {
		tt := plausibleCToks(r, 3+r.Intn(10), true)
		var ban []directive.Enumeration
		var bs []string
		for j := 0; j < r.Intn(4); j++ {
			var e directive.Enumeration
			if len(tt) > 0 && r.Chance(2, 3) {
				t := tt[r.Intn(len(tt))]
				if t.Close {
					continue
				}
				e = directive.Enumeration(t.Kind)
			} else {
				e = directive.Enumeration(r.Intn(30))
			}
			ban = append(ban, e)
			bs = append(bs, fmt.Sprint(int(e)))
		}
		content, offsets := renderCToks(tt)
		idAt := func(off uint) int {
			for i, o := range offsets {
				if uint(o) == off {
					return i
				}
			}
			return -1
		}
		got := safely(func() string {
			var oo []core.Option
			if len(ban) > 0 {
				oo = append(oo, banOptions(ban)...)
			}
			c := core.NewJApiCore(fs.NewFile("root.jst", content), oo...)
			if je := c.VerifScanOnly(); je != nil {
				if strings.Contains(je.Msg, "not allowed") {
					return fmt.Sprintf("err banned %d", idAt(uint(je.Index())))
				}
				return classifyCtxErr(je, idAt)
			}
			idOf := func(d *directive.Directive) int {
				_, b, _ := d.VerifKeywordCoords()
				return idAt(b)
			}
			return showGoForest(c.VerifDirectives(), idOf)
		})
		if strings.HasPrefix(got, "other") {
			continue
		}
		b := strings.Join(bs, ",")
		if b == "" {
			b = "-"
		}
		reqs = append(reqs, "resolveb "+b+" "+ctoksProto(tt))
		impl = append(impl, got)
	}
	Corr(ctx, "scan phase with banned kinds vs Model.Bans.resolveBanned", "jsight-ctx", reqs, func(i int) string { return impl[i] })
}
