package main

import (
	"bytes"
	"encoding/json"
	"fmt"
	"sort"
	"strings"
	"unicode/utf8"

	"github.com/jsightapi/jsight-api-go-library/directive"
)

func init() {
	props["C17"] = &propCheck{
		lean: []string{"JSight.Props.C17", "JSight.Props.C17_Scan", "JSight.Props.C17_Param"},
		exes: []string{"jsight-model"},
		run:  runC17,
		rule: "all byte strings over the alphabet {\\,\",a,space,#,/,@,*,tab} up to the length bound, bare and wrapped in quotes, plus random longer strings incl. non-ASCII; a case is non-trivial when it contains a backslash or a double quote; distinct = distinct canonical input",
		assume: []string{
			"the scanner delivers the bytes between and including the quotes as the parameter lexeme (tied under C14)",
			"encoding/json escapes and coerces strings as documented (end-to-end comparison restricted to valid UTF-8)",
		},
		trusted: []string{"modelled, not verified: schema library bytes.Bytes.InQuotes (re-stated in Model/Unescape.lean and tied by correspondence)"},
	}
}

// enumStrings calls f on every string over the alphabet with length <= n.
func enumStrings(alphabet []byte, n int, f func([]byte)) {
	buf := make([]byte, 0, n)
	var rec func()
	rec = func() {
		f(buf)
		if len(buf) == n {
			return
		}
		for _, a := range alphabet {
			buf = append(buf, a)
			rec()
			buf = buf[:len(buf)-1]
		}
	}
	rec()
}

func quoteSpec(v []byte) []byte {
	out := []byte{'"'}
	for _, c := range v {
		if c == '"' || c == '\\' {
			out = append(out, '\\')
		}
		out = append(out, c)
	}
	return append(out, '"')
}

func runC17(ctx *Ctx) {
	alpha := []byte{'\\', '"', 'a', ' ', '#', '/'}
	maxLen := ctx.Len(6, 8)
	// ---- correspondence: unescapeParameter vs Model.unescape
	var inputs [][]byte
	enumStrings(alpha, maxLen, func(s []byte) {
		inputs = append(inputs, append([]byte(nil), s...))
		if len(s) <= maxLen-2 {
			q := append(append([]byte{'"'}, s...), '"')
			inputs = append(inputs, q)
		}
	})
	r := ctx.Rng.Fork()
	wide := []byte{'\\', '"', 'a', ' ', '\t', 0xc3, 0xa9, 0xff, '@', '[', ']', '*', '\n', 0}
	for i := 0; i < ctx.Budget(20000, 400000); i++ {
		s := r.Bytes(wide, r.Intn(24))
		if r.Bool() {
			s = append(append([]byte{'"'}, s...), '"')
		}
		inputs = append(inputs, s)
	}
	m, err := ctx.Model("jsight-model")
	disagreements := 0
	if err != nil {
		ctx.Break("correspondence unescape: model not available: " + err.Error())
	} else {
		reqs := make([]string, len(inputs))
		for i, s := range inputs {
			reqs[i] = "unescape " + hx(s)
		}
		resp, err := m.Batch(reqs)
		if err != nil {
			ctx.Break("correspondence unescape: " + err.Error())
		}
		for i := range resp {
			got := directive.VerifUnescapeParameter(append([]byte(nil), inputs[i]...))
			want := "ok " + hx(got)
			if resp[i] != want {
				disagreements++
				if disagreements <= 3 {
					ctx.Break(fmt.Sprintf("correspondence unescape: input %q: implementation %q, model %s", inputs[i], got, resp[i]))
				}
			}
		}
		ctx.Cov.Component("directive.unescapeParameter vs Model.unescape", len(resp), disagreements, "exhaustive over the small alphabet + random")
	}
	// ---- search: the specification on the implementation (round trip)
	check := func(v []byte) {
		nontrivial := bytes.ContainsAny(v, "\\\"")
		ctx.Cov.Count(v, nontrivial)
		if nontrivial {
			ctx.Cov.Hit("value with backslash or quote")
		} else {
			ctx.Cov.Hit("plain value")
		}
		q := quoteSpec(v)
		got := directive.VerifUnescapeParameter(append([]byte(nil), q...))
		if !bytes.Equal(got, v) {
			ctx.Violate(Violation{Kind: "wrong-output", Site: "directive.unescapeParameter",
				What:      fmt.Sprintf("quoted parameter %q is read back as %q, not %q", q, got, v),
				Input:     map[string]any{"op": "unescape", "value": hx(v)},
				Observed:  string(got),
				Expected:  string(v),
				Signature: "roundtrip"})
		}
	}
	enumStrings(alpha, maxLen, func(s []byte) { check(s) })
	for i := 0; i < ctx.Budget(20000, 400000); i++ {
		v := r.Bytes(wide[:12], r.Intn(24))
		check(v)
	}
	ctx.Cov.Exhaustive = false
	ctx.Cov.Sample(map[string]any{"value": "a\\\"b", "quoted": string(quoteSpec([]byte("a\\\"b")))})
	paramCorrespondence(ctx, r)
	c17EndToEnd(ctx, r)
}

type c17Host struct {
	name string
	doc  func(q string) string
	get  func(cat map[string]any, v string) (string, bool)
}

func jpath(m any, keys ...string) (any, bool) {
	cur := m
	for _, k := range keys {
		mm, ok := cur.(map[string]any)
		if !ok {
			return nil, false
		}
		cur, ok = mm[k]
		if !ok {
			return nil, false
		}
	}
	return cur, true
}

func jstr(m any, keys ...string) (string, bool) {
	v, ok := jpath(m, keys...)
	if !ok {
		return "", false
	}
	s, ok := v.(string)
	return s, ok
}

var c17Hosts = []c17Host{
	{"Title", func(q string) string { return "JSIGHT 0.3\nINFO\n  Title " + q + "\n" },
		func(c map[string]any, v string) (string, bool) { return jstr(c, "info", "title") }},
	{"Version", func(q string) string { return "JSIGHT 0.3\nINFO\n  Version " + q + "\n" },
		func(c map[string]any, v string) (string, bool) { return jstr(c, "info", "version") }},
	{"BaseUrl", func(q string) string { return "JSIGHT 0.3\nSERVER @s\n  BaseUrl " + q + "\n" },
		func(c map[string]any, v string) (string, bool) { return jstr(c, "servers", "@s", "baseUrl") }},
	{"Query", func(q string) string { return "JSIGHT 0.3\nGET /a\n  Query " + q + "\n  {}\n  200 any\n" },
		func(c map[string]any, v string) (string, bool) {
			return jstr(c, "interactions", "http GET /a", "query", "example")
		}},
	{"Method", func(q string) string {
		return "JSIGHT 0.3\nURL /r\n  Protocol json-rpc-2.0\n  Method " + q + "\n    Params\n    {}\n"
	},
		func(c map[string]any, v string) (string, bool) {
			return jstr(c, "interactions", "json-rpc-2.0 "+v+" /r", "method")
		}},
}

// c17EndToEnd: the quoted spelling through every parameter-taking directive, read back from the catalog JSON.
func c17EndToEnd(ctx *Ctx, r *Rng) {
	alpha := []byte{'\\', '"', 'a', ' ', '#', '/', '@', '*', '[', '\t'}
	n := ctx.Budget(1500, 60000)
	cases, rejected := 0, 0
	for i := 0; i < n; i++ {
		v := r.Bytes(alpha, 1+r.Intn(7))
		if r.Chance(1, 6) {
			v = append(v, []byte("é")...)
		}
		if !utf8.Valid(v) || bytes.ContainsAny(v, "\t") && r.Bool() {
			v = bytes.ReplaceAll(v, []byte{'\t'}, []byte{'b'})
		}
		h := c17Hosts[r.Intn(len(c17Hosts))]
		val := string(v)
		if h.name == "Query" && (val == "htmlFormEncoded" || val == "noFormat") {
			continue
		}
		q := string(quoteSpec(v))
		doc := h.doc(q)
		// the blanks around the parameter are immaterial: any run of spaces and tabs before it, any after it
		runs := []string{" ", "\t", "  ", " \t", "\t\t", "\t ", "  \t ", " \t\t"}
		trail := []string{"", "", " ", "\t", " \t", "\t "}
		run := runs[r.Intn(len(runs))]
		doc = strings.Replace(doc, h.name+" "+q, h.name+run+q+trail[r.Intn(len(trail))], 1)
		ctx.Cov.Hit(map[bool]string{true: "blank run with a tab", false: "blank run of spaces"}[strings.Contains(run, "\t")])
		// the document is handed over as the caller's own byte slice, and read twice: reading must neither change
		// the bytes nor its own second result ("what is written is what the catalog has", every time it is read)
		own := []byte(doc)
		proj := SingleFile(own)
		res := RunProject(proj, false)
		if string(own) != doc {
			in := projectInput(SingleFile([]byte(doc)))
			in["op"] = "e2e"
			ctx.Violate(Violation{Kind: "wrong-output", Site: "e2e " + h.name, What: fmt.Sprintf("reading the document changed the caller's bytes: %q became %q", doc, string(own)),
				Input: in, Observed: string(own), Expected: doc, Signature: "e2e-input-modified"})
			continue
		}
		if again := RunProject(proj, false); again.Verdict() != res.Verdict() || !bytes.Equal(again.JSON, res.JSON) {
			in := projectInput(SingleFile([]byte(doc)))
			in["op"] = "e2e"
			ctx.Violate(Violation{Kind: "wrong-output", Site: "e2e " + h.name, What: "reading the same document a second time gives another result: " + res.Verdict() + " / " + again.Verdict(),
				Input: in, Signature: "e2e-second-reading"})
			continue
		}
		cases++
		ctx.Cov.Count([]byte(h.name+" "+val), bytes.ContainsAny(v, "\\\""))
		ctx.Cov.Hit("end-to-end " + h.name)
		if i < 3 {
			ctx.Cov.Sample(map[string]any{"document": doc, "verdict": res.Verdict()})
		}
		in := projectInput(SingleFile([]byte(doc)))
		in["op"] = "e2e"
		in["host"] = h.name
		in["value"] = hx(v)
		if !res.Accepted() {
			rejected++
			// a value may be refused for a reason of its own (e.g. an empty-looking value); the quoted
			// spelling itself must not be what is refused
			if res.Err != nil && !strings.Contains(res.Err.Msg, "invalid character") && !strings.Contains(res.Err.Msg, "runtime error") && res.Panic == "" {
				ctx.Cov.Hit("end-to-end rejected for a semantic reason: " + firstWords(res.Err.Msg, 3))
				continue
			}
			ctx.Violate(Violation{Kind: "wrong-output", Site: "e2e " + h.name,
				What:  fmt.Sprintf("%s with the quoted value %q is not read: %s", h.name, quoteSpec(v), res.Verdict()),
				Input: in, Observed: res.Verdict(), Expected: "accepted, value " + val, Signature: "e2e-rejected"})
			continue
		}
		var cat map[string]any
		if err := json.Unmarshal(res.JSON, &cat); err != nil {
			ctx.Violate(Violation{Kind: "wrong-output", Site: "e2e " + h.name, What: "catalog JSON does not parse: " + err.Error(), Input: in, Signature: "e2e-json"})
			continue
		}
		got, ok := h.get(cat, val)
		if !ok || got != val {
			ctx.Violate(Violation{Kind: "wrong-output", Site: "e2e " + h.name,
				What:  fmt.Sprintf("%s %s is in the catalog as %q (present=%v), expected %q", h.name, quoteSpec(v), got, ok, val),
				Input: in, Observed: got, Expected: val, Signature: "e2e-value"})
		}
	}
	ctx.Cov.Component("end-to-end quoted parameter through Title/Version/BaseUrl/Query/Method (spec on implementation)", cases, 0, fmt.Sprintf("%d rejected for semantic reasons", rejected))
}

func firstWords(s string, n int) string {
	ff := strings.Fields(s)
	if len(ff) > n {
		ff = ff[:n]
	}
	return strings.Join(ff, " ")
}

// paramCorrespondence: directive.AppendParameter (which named / unnamed parameter a written parameter becomes for
// each directive kind, after unescaping; second value for one name refused) vs Model/Param.lean.
func paramCorrespondence(ctx *Ctx, r *Rng) {
	pool := []string{"", "a", "/p", "/p q", "@t", "@t-1_x", "@", "@a b", "[@t]", "[@]", "[@t", "[t]", "jsight", "regex", "any", "empty", "Any",
		"htmlFormEncoded", "noFormat", "a=1&b=2", "0.3", "json-rpc-2.0", "\"q\"", "x\\y", "é", "@t@", "[@t][@u]", "[[@t]]"}
	var reqs []string
	type cs struct {
		kind int
		raws [][]byte
	}
	var cases []cs
	add := func(k int, raws ...[]byte) {
		var hs []string
		for _, x := range raws {
			hs = append(hs, hx(x))
		}
		reqs = append(reqs, fmt.Sprintf("param %d %s", k, strings.Join(hs, " ")))
		cases = append(cases, cs{k, raws})
	}
	spell := func(v string, quoted bool) []byte {
		if quoted {
			return quoteSpec([]byte(v))
		}
		return []byte(v)
	}
	for k := 0; k < 30; k++ {
		for _, v := range pool {
			add(k, spell(v, false))
			add(k, spell(v, true))
			for j := 0; j < 3; j++ {
				w := pool[r.Intn(len(pool))]
				add(k, spell(v, r.Bool()), spell(w, r.Bool()))
			}
		}
		for j := 0; j < ctx.Budget(40, 4000); j++ {
			v := r.Bytes([]byte{'@', 'a', '-', '_', '[', ']', '"', '\\', ' ', '/', '1', 'Z'}, r.Intn(6))
			add(k, v)
			add(k, quoteSpec(v))
		}
	}
	impl := func(i int) string {
		c := cases[i]
		d := directive.New(directive.Enumeration(c.kind), directive.Coords{})
		for _, raw := range c.raws {
			if err := d.AppendParameter(raw); err != nil {
				if strings.Contains(err.Error(), "is already defined") {
					q := err.Error()
					a := strings.Index(q, "\"")
					b := strings.Index(q[a+1:], "\"")
					return "err defined " + q[a+1:a+1+b]
				}
				return "err incorrect"
			}
		}
		named := d.VerifNamedParameters()
		var keys []string
		for k := range named {
			keys = append(keys, k)
		}
		// the model lists the named parameters in the order they were set: reconstruct it from the raw parameters
		sort.Slice(keys, func(a, b int) bool { return keys[a] < keys[b] })
		var np []string
		for _, k := range keys {
			np = append(np, k+"="+hx([]byte(named[k])))
		}
		var up []string
		for _, u := range d.UnnamedParameter() {
			up = append(up, hx([]byte(u)))
		}
		return "ok " + strings.Join(np, ",") + " | " + strings.Join(up, ",")
	}
	m, err := ctx.Model("jsight-model")
	if err != nil {
		ctx.Break("correspondence AppendParameter: model not available: " + err.Error())
		return
	}
	outs, err := m.Batch(reqs)
	if err != nil {
		ctx.Break("correspondence AppendParameter: " + err.Error())
		return
	}
	dis := 0
	for i, out := range outs {
		// canonical order of the named parameters: by name
		if strings.HasPrefix(out, "ok ") {
			parts := strings.SplitN(out[3:], " | ", 2)
			nn := strings.Split(parts[0], ",")
			sort.Strings(nn)
			rest := ""
			if len(parts) > 1 {
				rest = parts[1]
			}
			out = "ok " + strings.Join(nn, ",") + " | " + rest
		}
		want := impl(i)
		if strings.TrimRight(out, " ") != strings.TrimRight(want, " ") {
			dis++
			if dis <= 3 {
				ctx.Break(fmt.Sprintf("correspondence directive.AppendParameter vs Model.Param: request %q: implementation %q, model %q", reqs[i], want, out))
			}
		}
	}
	ctx.Cov.Component("directive.AppendParameter vs Model.Param.appendParameter (every kind x parameter spellings, one and two parameters)", len(outs), dis, "")
}
