package main

import (
	"bytes"
	"fmt"
	"strings"
)

// Stated cases: concrete inputs, found by reading the code against the statements (bug-hunting agents, session 4), on
// which a property's statement can be evaluated directly: "these two spellings give the same result", "this document
// is rejected", "what is written appears in the catalog".  Each case belongs to one property and runs at the end of that
// property's search, with small variations (line ends, indentation).  Cases that fail on the unchanged tree are open
// known findings (signature "case:<id>"); a case that passes today guards a repair.

type statedCase struct {
	id, prop, what string
	kind           string // same | reject | contains
	a, b           map[string]string
	needle         []string // contains: every needle appears in the catalog if the document is accepted
}

func one(doc string) map[string]string { return map[string]string{"root.jst": doc} }

var statedCases = []statedCase{
	{id: "descr-keyword-prefix", prop: "C15", kind: "same",
		what: "a bare description line that begins with a word which merely BEGINS with a keyword (\"Requests are …\", \"URLs\", \"200ms\") vs the same text in parentheses",
		a:    one("JSIGHT 0.3\nGET /a\n  Description\n    Some text.\n    Requests are rate limited.\n  200 any\n"),
		b:    one("JSIGHT 0.3\nGET /a\n  Description\n  (\n    Some text.\n    Requests are rate limited.\n  )\n  200 any\n")},
	{id: "descr-keyword-prefix-2", prop: "C15", kind: "same",
		what: "a bare description line \"URLs and 200ms\" vs the same text in parentheses",
		a:    one("JSIGHT 0.3\nINFO\n  Description\n    About\n    URLs and Pathological cases, 200ms.\nGET /a\n  200 any\n"),
		b:    one("JSIGHT 0.3\nINFO\n  Description\n  (\n    About\n    URLs and Pathological cases, 200ms.\n  )\nGET /a\n  200 any\n")},
	{id: "second-tags", prop: "C19", kind: "contains",
		what:   "a method with two Tags directives carries the tags of both (or the document is rejected)",
		a:      one("JSIGHT 0.3\nTAG @a\nTAG @b\nGET /x\n  Tags @a\n  Tags @b\n  200 any\n"),
		needle: []string{`"tags":["@a","@b"]`}},
	{id: "second-tags-url", prop: "C19", kind: "contains",
		what:   "a URL with two Tags directives: its methods carry the tags of both (or the document is rejected)",
		a:      one("JSIGHT 0.3\nTAG @a\nTAG @b\nURL /x\n  Tags @a\n  Tags @b\n  GET\n    200 any\n"),
		needle: []string{`"tags":["@a","@b"]`}},
	{id: "path-object-property-unused-prefix", prop: "C13", kind: "reject",
		what: "a Path body whose property is typed by an OBJECT user type is not a flat object: rejected also when no method uses the prefix",
		a:    one("JSIGHT 0.3\nTYPE @Obj\n{\"x\": 1}\nURL /a/{id}\n  Path\n  {\"id\": @Obj}\nGET /b\n  200 any\n")},
	{id: "path-object-property-used-prefix", prop: "C13", kind: "reject",
		what: "(control) the same Path body with a method under the URL is rejected",
		a:    one("JSIGHT 0.3\nTYPE @Obj\n{\"x\": 1}\nURL /a/{id}\n  Path\n  {\"id\": @Obj}\n  GET\n    200 any\n")},
	{id: "macro-before-jsight", prop: "C10", kind: "same",
		what: "JSIGHT as the second directive after a MACRO block vs after a TYPE block (the two blocks exchanged)",
		a:    one("MACRO @m\n(\n    200 any\n)\nJSIGHT 0.3\nTYPE @t\n{}\nGET /x\n    PASTE @m\n"),
		b:    one("TYPE @t\n{}\nJSIGHT 0.3\nMACRO @m\n(\n    200 any\n)\nGET /x\n    PASTE @m\n")},
	{id: "allof-in-rpc-params", prop: "C12", kind: "contains",
		what:   "an object with an allOf rule in the Params of a JSON-RPC method lists the inherited property",
		a:      one("JSIGHT 0.3\nTYPE @base\n{\"id\": 1}\nURL /rpc\n  Protocol json-rpc-2.0\n  Method foo\n    Params\n    { // {allOf: \"@base\"}\n      \"name\": \"x\"\n    }\n"),
		needle: []string{`"inheritedFrom":"@base"`}},
	{id: "allof-in-array-item", prop: "C12", kind: "contains",
		what:   "an object with an allOf rule that is an ITEM of an array lists the inherited property",
		a:      one("JSIGHT 0.3\nTYPE @base\n{\"id\": 1}\nGET /list\n  200\n  [\n    { // {allOf: \"@base\"}\n      \"name\": \"x\"\n    }\n  ]\n"),
		needle: []string{`"inheritedFrom":"@base"`}},
	{id: "allof-in-property-value", prop: "C12", kind: "contains",
		what:   "(control) the same object as the value of a property lists the inherited property",
		a:      one("JSIGHT 0.3\nTYPE @base\n{\"id\": 1}\nGET /list\n  200\n  {\n    \"item\": { // {allOf: \"@base\"}\n      \"name\": \"x\"\n    }\n  }\n"),
		needle: []string{`"inheritedFrom":"@base"`}},
	{id: "comment-between-type-and-body", prop: "C05", kind: "same",
		what: "a comment line between a TYPE / Body directive and its regex body vs no comment",
		a:    one("JSIGHT 0.3\nTYPE @a regex\n# c\n/abc/\nGET /a\n  200 @a\n"),
		b:    one("JSIGHT 0.3\nTYPE @a regex\n/abc/\nGET /a\n  200 @a\n")},
	{id: "comment-between-type-and-paren", prop: "C05", kind: "same",
		what: "a comment line between a TYPE directive and its opening parenthesis vs no comment",
		a:    one("JSIGHT 0.3\nTYPE @a\n# c\n(\n{}\n)\nGET /a\n  200 @a\n"),
		b:    one("JSIGHT 0.3\nTYPE @a\n(\n{}\n)\nGET /a\n  200 @a\n")},
	{id: "comment-glued-to-enum-body", prop: "C05", kind: "same",
		what: "a comment written directly after the closing bracket of an ENUM body (no blank) vs no comment",
		a:    one("JSIGHT 0.3\nENUM @e\n[1]# c\nGET /a\n  200 any\n"),
		b:    one("JSIGHT 0.3\nENUM @e\n[1]\nGET /a\n  200 any\n")},
	{id: "block-comment-after-line-annotation", prop: "C05", kind: "same",
		what: "a block comment opened after a // annotation vs no comment",
		a:    one("JSIGHT 0.3\nGET /a // ann ### c\n more ###\n  200 any\n"),
		b:    one("JSIGHT 0.3\nGET /a // ann\n  200 any\n")},
	{id: "block-comment-ends-on-directive-line", prop: "C05", kind: "same",
		what: "a block comment after a schema body that ends on the line of the next directive vs no comment",
		a:    one("JSIGHT 0.3\nTYPE @a\n{}\n###\n c\n### TYPE @b\n{}\nGET /a\n  200 @a\n"),
		b:    one("JSIGHT 0.3\nTYPE @a\n{}\nTYPE @b\n{}\nGET /a\n  200 @a\n")},
	{id: "enum-note-line-ends", prop: "C05", kind: "same",
		what: "a multi-line note of an ENUM value in a document with LF vs CRLF line ends",
		a:    one("JSIGHT 0.3\nENUM @e\n[\n  \"A\" /* x\n  y */\n]\nGET /a\n  200 any\n"),
		b:    one("JSIGHT 0.3\r\nENUM @e\r\n[\r\n  \"A\" /* x\r\n  y */\r\n]\r\nGET /a\r\n  200 any\r\n")},
	{id: "second-path-after-nested-path", prop: "C11", kind: "reject",
		what: "a second Path directive of one URL, with the Path of a nested method between the two",
		a:    one("JSIGHT 0.3\nURL /a/{x}/{y}/{z}\n  Path\n  {\"x\": 1}\n  GET\n  (\n    Path\n    {\"y\": 2}\n    200 any\n  )\n  Path\n  {\"z\": 3}\n")},
	{id: "enum-at-end-of-file", prop: "C11", kind: "reject",
		what: "a nameless ENUM as the last token of the file (no line end after it)",
		a:    one("JSIGHT 0.3\nGET /a\n  200 any\n\nENUM")},
	{id: "duplicate-enum-at-end-of-file", prop: "C11", kind: "reject",
		what: "a second ENUM of one name as the last token of the file (no body, no line end)",
		a:    one("JSIGHT 0.3\nENUM @e\n[1, 2]\nGET /a\n  200 any\n\nENUM @e")},
	{id: "response-body-annotation", prop: "C04", kind: "contains",
		what:   "the annotation of a Body directive below a response appears in the catalog (or the document is rejected, as below a Request)",
		a:      one("JSIGHT 0.3\nPOST /a\n  200\n    Body any // response body note\n"),
		needle: []string{"response body note"}},
	{id: "include-quoted-name", prop: "C17", kind: "same",
		what: "INCLUDE with a quoted file name vs the bare spelling",
		a:    map[string]string{"root.jst": "JSIGHT 0.3\nINCLUDE \"inc.jst\"\n", "inc.jst": "GET /a\n  200 any\n"},
		b:    map[string]string{"root.jst": "JSIGHT 0.3\nINCLUDE inc.jst\n", "inc.jst": "GET /a\n  200 any\n"}},
	{id: "undefined-paste-in-unused-macro", prop: "C07", kind: "reject",
		what: "a PASTE of an undefined macro inside a macro that is never pasted",
		a:    one("JSIGHT 0.3\nMACRO @a\n(\n  PASTE @nope\n)\nGET /x\n  200 any\n")},
	{id: "regex-example-generator-panic", prop: "C01", kind: "reject",
		what: "a regex type whose example cannot be generated (a negated class over all of ASCII) ends in a diagnostic, not a panic",
		a:    one("JSIGHT 0.3\nTYPE @r regex\n/[^\\x00-\\x7F]/\nGET /a\n  200 any\n")},
	{id: "unused-regex-type-breaks-other-schemas", prop: "C20", kind: "same",
		what: "a document with and without an unused regex TYPE whose generated example holds a control character",
		a:    one("JSIGHT 0.3\nTYPE @a\n{\"x\": 1}\nTYPE @ascii regex\n/^[\\x00-\\x7F]+$/\nGET /a\n  200 @a\n"),
		b:    one("JSIGHT 0.3\nTYPE @a\n{\"x\": 1}\nGET /a\n  200 @a\n")},
	{id: "deleting-method-between-two-paths", prop: "C20", kind: "same",
		what: "a URL with two Path directives and a method with its own Path between them vs the same URL without that method: same verdict",
		a:    one("JSIGHT 0.3\nURL /a/{x}/{y}/{z}\n(\n  Path\n  {\"x\": 1}\n  GET\n  (\n    Path\n    {\"y\": 2}\n    200 any\n  )\n  Path\n  {\"z\": 3}\n  POST\n    200 any\n)\n"),
		b:    one("JSIGHT 0.3\nURL /a/{x}/{y}/{z}\n(\n  Path\n  {\"x\": 1}\n  Path\n  {\"z\": 3}\n  POST\n    200 any\n)\n")},
	{id: "request-unknown-type-message", prop: "C02", kind: "cleanmsg",
		what: "the diagnostic of an unknown type in a Request is the message alone (as for a response), not the schema library's rendering with \"in line 1 on file\"",
		a:    one("JSIGHT 0.3\n\nPOST /a\n  Request @unknown\n  200 any\n")},
	{id: "failed-paste-message-chain", prop: "C02", kind: "cleanmsg",
		what: "the message of a failed PASTE in an included file is the message alone: the include chain belongs to the trace, once",
		a:    map[string]string{"root.jst": "JSIGHT 0.3\n\nINCLUDE a.jst\n", "a.jst": "GET /a\n  200 any\n  PASTE @nope\n"}},
	{id: "include-inside-parentheses", prop: "C08", kind: "same",
		what: "the children of a parenthesised URL written in place vs moved into an included file",
		a:    map[string]string{"root.jst": "JSIGHT 0.3\nURL /a\n(\n  INCLUDE inc.jst\n)\n", "inc.jst": "  GET\n    200 any\n"},
		b:    one("JSIGHT 0.3\nURL /a\n(\n  GET\n    200 any\n)\n")},
}

func casesProject(files map[string]string) Project {
	p := Project{Files: map[string][]byte{}, Root: "root.jst"}
	for k, v := range files {
		p.Files[k] = []byte(v)
	}
	return p
}

// runStatedCases evaluates the stated cases of the property (each in LF and, where the case is not about line ends,
// CRLF spelling)
func runStatedCases(ctx *Ctx) {
	n, bad := 0, 0
	for _, c := range statedCases {
		if c.prop != ctx.Prop {
			continue
		}
		spellings := []string{"\n", "\r\n"}
		if c.id == "enum-note-line-ends" {
			spellings = spellings[:1]
		}
		failed := ""
		var failedIn map[string]any
		for _, nl := range spellings {
			conv := func(m map[string]string) Project {
				q := map[string]string{}
				for k, v := range m {
					if nl != "\n" {
						v = strings.ReplaceAll(strings.ReplaceAll(v, "\r\n", "\n"), "\n", nl)
					}
					q[k] = v
				}
				return casesProject(q)
			}
			pa := conv(c.a)
			ra := RunProject(pa, false)
			n++
			var key []byte
			for _, f := range pa.Files {
				key = append(key, f...)
			}
			ctx.Cov.Count(key, true)
			ctx.Cov.Hit("stated case " + c.id)
			msg := ""
			if ra.Panic != "" {
				if c.prop != "C01" {
					continue
				}
				msg = "panic: " + ra.Panic
			}
			switch {
			case msg != "":
			case c.kind == "reject":
				if ra.Accepted() {
					msg = "the document is accepted"
				}
			case c.kind == "contains":
				if ra.Accepted() {
					for _, nd := range c.needle {
						if !bytes.Contains(ra.JSON, []byte(nd)) {
							msg = fmt.Sprintf("the document is accepted and its catalog does not hold %s", nd)
						}
					}
				}
			case c.kind == "cleanmsg":
				if ra.Err == nil {
					msg = "the document is accepted"
				} else if strings.ContainsAny(ra.Err.Msg, "\n\t") {
					msg = fmt.Sprintf("the message spans several lines: %q", ra.Err.Msg)
				}
			case c.kind == "same":
				rb := RunProject(conv(c.b), false)
				if rb.Panic != "" {
					continue
				}
				if ra.Accepted() != rb.Accepted() {
					msg = fmt.Sprintf("first spelling: %s; second spelling: %s", ra.Verdict(), rb.Verdict())
				} else if ra.Accepted() && !bytes.Equal(ra.JSON, rb.JSON) {
					msg = "the catalogs differ: " + firstDiff(ra.JSON, rb.JSON)
				}
			}
			if msg != "" && failed == "" {
				failed = msg
				failedIn = projectInput(pa)
				failedIn["op"] = "case"
				failedIn["case"] = c.id
				if c.b != nil {
					failedIn["second_spelling"] = c.b
				}
			}
		}
		if failed != "" {
			bad++
			ctx.Violate(Violation{Kind: "wrong-output", Site: "stated case", What: c.what + ": " + failed, Input: failedIn, Signature: "case:" + c.id})
		}
	}
	if n > 0 {
		ctx.Cov.Component("stated cases of this property (concrete inputs on which the statement is evaluated directly)", n, bad, "")
	}
}
