package main

import (
	"fmt"
	"sort"
	"strings"
)

func init() {
	props["C10"] = &propCheck{
		lean:    []string{"JSight.Props.C10_Paths", "JSight.Props.C10", "JSight.Props.C10_Build", "JSight.Props.C10_Inters", "JSight.Props.C13_Bind"},
		exes:    []string{"jsight-build"},
		run:     runC10,
		assume:  []string{"C10_Build.reorder_decls covers reorderings that move declarations (TYPE, SERVER, TAG, ENUM, MACRO) past any blocks on the catalog model; the relative order of URL / method blocks among themselves, and the content of schema entries under permutation, are decided by search; C13_Bind.order_free covers the Path directives", "the schema library is invariant under the order in which types and rules are handed to it (observed)"},
		rule:    "generated documents (reference chains between types, enums used inside referenced types, allOf chains of depth >= 2, tags used before definition) x permutations of their top-level blocks (all permutations for <= 5 blocks in the thorough tier, sampled otherwise); non-trivial = accepted document with >= 3 blocks whose permutation differs from the original order; distinct = distinct (document, permutation)",
		trusted: []string{"the harness-side renderer; catalog equality is judged on the full JSON with every ordered collection compared as a set of entries"},
	}
	props["C20"] = &propCheck{
		lean:    []string{"JSight.Props.C20", "JSight.Props.C04_Build", "JSight.Props.C20_Build"},
		exes:    []string{"jsight-build"},
		run:     runC20,
		assume:  []string{"the locality theorems cover an appended TYPE, SERVER (with or without BaseUrl) and TAG on the catalog model (C04_Build.add_*_local) and additions/removals on the name registry; for the other kinds and for insertion points inside the document, that no OTHER entry changes is decided by search", "the schema library answers for existing bodies do not change when an unreferenced type or enum is added (observed)"},
		rule:    "generated accepted documents x one fresh declaration of each kind (type, enum, server, tag, path-bearing method on an unrelated path, JSON-RPC URL) x every insertion point between top-level blocks, and every unreferenced declaration deleted; non-trivial = accepted base document with >= 2 blocks; distinct = distinct (document, change)",
		trusted: []string{"the harness-side renderer"},
	}
}

// unorderedCatalog: canonical form of a catalog in which the five ordered collections, the tag
// interaction lists and the used-type lists are compared up to order; everything else verbatim.
func unorderedCatalog(js []byte, graph map[string][]string) (string, *OVal, error) {
	v, _, err := ParseOJSON(js)
	if err != nil {
		return "", nil, err
	}
	if graph != nil {
		closeUsedTypes(v, graph)
	}
	var norm func(x *OVal, key string)
	norm = func(x *OVal, key string) {
		if x == nil {
			return
		}
		switch x.Kind {
		case OObj:
			for _, kv := range x.Obj {
				norm(kv.V, kv.K)
			}
		case OArr:
			for _, y := range x.Arr {
				norm(y, "")
			}
			if key == "interactions" || key == "usedUserTypes" || key == "usedUserEnums" {
				sort.SliceStable(x.Arr, func(i, j int) bool { return x.Arr[i].S < x.Arr[j].S })
			}
		}
	}
	norm(v, "")
	return v.Canon(true), v, nil
}

// entryDiff names the first entry of an ordered collection that differs between two catalogs.
func entryDiff(a, b *OVal) string {
	for _, c := range append([]string{"info", "jsight"}, orderedCollections...) {
		ca, cb := a.Get(c), b.Get(c)
		if ca.Canon(true) == cb.Canon(true) {
			continue
		}
		if ca != nil && cb != nil && ca.Kind == OObj && cb.Kind == OObj {
			for _, kv := range ca.Obj {
				x := cb.Get(kv.K)
				if x == nil {
					return fmt.Sprintf("%s[%s] is missing", c, kv.K)
				}
				if x.Canon(true) != kv.V.Canon(true) {
					return fmt.Sprintf("%s[%s] changed: %s  ->  %s", c, kv.K, trunc(kv.V.Canon(true), 500), trunc(x.Canon(true), 500))
				}
			}
			for _, kv := range cb.Obj {
				if ca.Get(kv.K) == nil {
					return fmt.Sprintf("%s[%s] is new", c, kv.K)
				}
			}
		}
		return fmt.Sprintf("%s changed", c)
	}
	return "catalogs differ"
}

func permute(r *Rng, n int) []int {
	p := make([]int, n)
	for i := range p {
		p[i] = i
	}
	for i := n - 1; i > 0; i-- {
		j := r.Intn(i + 1)
		p[i], p[j] = p[j], p[i]
	}
	return p
}

func allPerms(n int, f func([]int)) {
	p := make([]int, n)
	for i := range p {
		p[i] = i
	}
	var rec func(k int)
	rec = func(k int) {
		if k == n {
			f(p)
			return
		}
		for i := k; i < n; i++ {
			p[k], p[i] = p[i], p[k]
			rec(k + 1)
			p[k], p[i] = p[i], p[k]
		}
	}
	rec(0)
}

func runC10(ctx *Ctx) {
	r := ctx.Rng.Fork()
	buildCorrSuite(ctx, r.Fork(), ctx.Budget(200, 20000))
	regCorrespondence(ctx, r, ctx.Budget(2000, 60000))
	n := ctx.Budget(250, 6000)
	kfSeen := false
	for i := 0; i < n && len(ctx.Violations) < 10; i++ {
		m := GenModel(r)
		base, _ := m.Render(PlainStyle(), true)
		b0 := RunProject(SingleFile(base), false)
		if !b0.Accepted() {
			ctx.Cov.Hit("base document rejected")
			continue
		}
		graph := m.allOfGraph()
		c0, v0, err := unorderedCatalog(b0.JSON, graph)
		if err != nil {
			continue
		}
		var perms [][]int
		nb := len(m.Blocks)
		if nb <= ctx.Len(4, 5) {
			allPerms(nb, func(p []int) { perms = append(perms, append([]int(nil), p...)) })
		} else {
			for k := 0; k < ctx.Len(12, 60); k++ {
				perms = append(perms, permute(r, nb))
			}
		}
		for _, p := range perms {
			pm := &ApiModel{}
			ident := true
			for k, j := range p {
				pm.Blocks = append(pm.Blocks, m.Blocks[j])
				if k != j {
					ident = false
				}
			}
			doc, _ := pm.Render(PlainStyle(), true)
			ctx.Cov.Count(doc, nb >= 3 && !ident)
			b1 := RunProject(SingleFile(doc), false)
			if i == 0 && len(ctx.Cov.Samples) < 1 && !ident {
				ctx.Cov.Sample(map[string]any{"original": string(base), "permuted": string(doc)})
			}
			in := projectInput(SingleFile(doc))
			in["op"] = "permute"
			in["original"] = hx(base)
			if !b1.Accepted() {
				ctx.Violate(Violation{Kind: "wrong-output", Site: "declaration order", What: "reordering the top-level declarations turns an accepted document into a rejected one: " + b1.Verdict(),
					Input: in, Observed: b1.Verdict(), Expected: "accepted", Signature: "perm-rejected:" + firstWords(b1.Verdict(), 4)})
				continue
			}
			c1, v1, err := unorderedCatalog(b1.JSON, graph)
			if err != nil {
				continue
			}
			if c1 != c0 {
				ctx.Violate(Violation{Kind: "wrong-output", Site: "declaration order", What: "reordering the top-level declarations changes the content of an entry: " + entryDiff(v0, v1),
					Input: in, Signature: "perm-content:" + firstWords(entryDiff(v0, v1), 1)})
			}
			// F15: lists of used types as written (not closed under allOf) depend on the order
			if !kfSeen {
				r0, _, _ := unorderedCatalog(b0.JSON, nil)
				r1, _, _ := unorderedCatalog(b1.JSON, nil)
				if r0 != r1 {
					kfSeen = true
					ctx.Violate(Violation{Kind: "wrong-output", Site: "core.inheritPropertiesFromUserType",
						What:  "usedUserTypes of a schema with an allOf chain lists the transitive bases or only the direct one depending on declaration order",
						Input: in, Signature: "F15-usedUserTypes-order"})
				}
			}
		}
	}
	ctx.Cov.Component("catalog of a document vs catalogs of its block permutations (specification on the implementation)", ctx.Cov.Evaluations, len(ctx.Violations), "")
	c10Verdicts(ctx, r)
	c10TypeGraphs(ctx, r)
}

// c10Verdicts: "… never turns an accepted document into a rejected one or vice versa" on REJECTED documents too:
// documents with one injected fault, and documents with (parenthesised, so that the order does not change what a
// macro contains) macros pasting one another in cycles behind entry macros — every order of their top-level blocks
// must give the same verdict.
func c10Verdicts(ctx *Ctx, r *Rng) {
	n := ctx.Budget(120, 6000)
	cases, bad := 0, 0
	for i := 0; i < n && bad < 6; i++ {
		var blocks []string
		if i%2 == 0 {
			// macros @m1..@mk: a cycle among some of them, entry macros pasting into it, an unrelated type
			k := 2 + r.Intn(3)
			for j := 1; j <= k; j++ {
				target := j%k + 1 // a cycle through all of them
				if r.Chance(1, 4) {
					target = 1 + r.Intn(k)
				}
				blocks = append(blocks, fmt.Sprintf("MACRO @m%d\n(\n  TYPE @t%d%d\n  {}\n  PASTE @m%d\n)\n", j, i, j, target))
			}
			for e := 0; e < 1+r.Intn(2); e++ {
				blocks = append(blocks, fmt.Sprintf("MACRO @entry%d\n(\n  PASTE @m%d\n)\n", e, 1+r.Intn(k)))
			}
			blocks = append(blocks, "TYPE @plain\n{}\n")
			if r.Bool() {
				blocks = append(blocks, "GET /x\n  200 any\n")
			}
		} else {
			m := GenModel(r)
			base, _ := m.Render(PlainStyle(), true)
			lines := strings.Split(strings.TrimRight(string(base), "\n"), "\n")
			ff := injectFaults(lines, r)
			if len(ff) == 0 {
				continue
			}
			f := ff[r.Intn(len(ff))]
			bb := splitTopBlocks(strings.Join(f.doc, "\n") + "\n")
			if len(bb) < 3 {
				continue
			}
			blocks = bb[1:]
		}
		if len(blocks) > 7 {
			blocks = blocks[:7]
		}
		render := func(p []int) []byte {
			var b strings.Builder
			b.WriteString("JSIGHT 0.3\n")
			for _, j := range p {
				b.WriteString(blocks[j])
			}
			return []byte(b.String())
		}
		id := make([]int, len(blocks))
		for j := range id {
			id[j] = j
		}
		b0 := RunProject(SingleFile(render(id)), false)
		if b0.Panic != "" {
			continue
		}
		// blocks that end in free description text change meaning with what follows them: skip those documents
		if strings.Contains(strings.Join(blocks, ""), "Description") {
			continue
		}
		var perms [][]int
		if len(blocks) <= ctx.Len(4, 5) {
			allPerms(len(blocks), func(p []int) { perms = append(perms, append([]int(nil), p...)) })
		} else {
			for k := 0; k < ctx.Len(10, 60); k++ {
				perms = append(perms, permute(r, len(blocks)))
			}
		}
		for _, p := range perms {
			doc := render(p)
			b1 := RunProject(SingleFile(doc), false)
			cases++
			ctx.Cov.Count(doc, !b0.Accepted())
			if b1.Panic != "" {
				continue
			}
			if b1.Accepted() != b0.Accepted() {
				bad++
				in := projectInput(SingleFile(doc))
				in["op"] = "permute"
				in["original"] = hx(render(id))
				ctx.Violate(Violation{Kind: "wrong-output", Site: "declaration order", What: fmt.Sprintf("reordering the top-level declarations changes the verdict: %s, in the original order: %s", b1.Verdict(), b0.Verdict()),
					Input: in, Observed: b1.Verdict(), Expected: b0.Verdict(), Signature: "perm-verdict"})
				break
			}
		}
		if b0.Accepted() {
			ctx.Cov.Hit("verdict documents: accepted in every order")
		} else {
			ctx.Cov.Hit("verdict documents: rejected in every order (" + firstWords(b0.Verdict(), 3) + ")")
		}
	}
	ctx.Cov.Component("documents with a fault or with macro cycles vs their block permutations: same verdict (specification on the implementation)", cases, bad, "")
}

// freshBlocks: well-formed declarations with fresh names, one of each kind.
func freshBlocks(k int) []BlockM {
	id := 900000 + k*10
	m := MethodM{Verb: "GET", Path: fmt.Sprintf("/fresh%d/x", id), Responses: []ResponseM{{Code: "200", Body: &SchemaM{Mode: "any"}}}}
	return []BlockM{
		{Kind: "type", Name: fmt.Sprintf("@fresh%d", id), Schema: &SchemaM{Mode: "inline", Body: fmt.Sprintf(`{"q%d": 1}`, id)}},
		{Kind: "enum", Name: fmt.Sprintf("@fresh%d", id+1), EnumBody: `[1, 2]`},
		{Kind: "server", Name: fmt.Sprintf("@fresh%d", id+2), BaseURL: "http://fresh"},
		{Kind: "tag", Name: fmt.Sprintf("@fresh%d", id+3), Annotation: "Fresh"},
		{Kind: "method", Method: &m},
		{Kind: "url", Path: fmt.Sprintf("/fresh%d/rpc", id), Rpc: []RpcM{{Name: "freshRpc", Params: &SchemaM{Mode: "inline", Body: `{"p": 1}`}}}},
	}
}

func runC20(ctx *Ctx) {
	r := ctx.Rng.Fork()
	buildCorrSuite(ctx, r.Fork(), ctx.Budget(200, 20000))
	regCorrespondence(ctx, r, ctx.Budget(2000, 60000))
	n := ctx.Budget(200, 8000)
	for i := 0; i < n && len(ctx.Violations) < 10; i++ {
		m := GenModel(r)
		base, _ := m.Render(PlainStyle(), true)
		b0 := RunProject(SingleFile(base), false)
		if !b0.Accepted() {
			continue
		}
		_, v0, err := unorderedCatalog(b0.JSON, nil)
		if err != nil {
			continue
		}
		for fk, fb := range freshBlocks(i) {
			positions := []int{0, len(m.Blocks)}
			if len(m.Blocks) > 1 {
				positions = append(positions, 1+r.Intn(len(m.Blocks)-1))
			}
			if ctx.Thorough() {
				positions = positions[:0]
				for p := 0; p <= len(m.Blocks); p++ {
					positions = append(positions, p)
				}
			}
			for _, pos := range positions {
				pm := &ApiModel{}
				pm.Blocks = append(pm.Blocks, m.Blocks[:pos]...)
				pm.Blocks = append(pm.Blocks, fb)
				pm.Blocks = append(pm.Blocks, m.Blocks[pos:]...)
				doc, _ := pm.Render(PlainStyle(), true)
				ctx.Cov.Count(doc, len(m.Blocks) >= 2)
				ctx.Cov.Hit("added " + fb.Kind)
				b1 := RunProject(SingleFile(doc), false)
				in := projectInput(SingleFile(doc))
				in["op"] = "add"
				in["original"] = hx(base)
				if i == 0 && fk == 0 && pos == positions[0] {
					ctx.Cov.Sample(map[string]any{"original": string(base), "with a fresh declaration": string(doc)})
				}
				if !b1.Accepted() {
					ctx.Violate(Violation{Kind: "wrong-output", Site: "locality", What: fmt.Sprintf("adding a fresh %s makes the document rejected: %s", fb.Kind, b1.Verdict()),
						Input: in, Observed: b1.Verdict(), Expected: "accepted", Signature: "add-rejected:" + fb.Kind})
					continue
				}
				_, v1, err := unorderedCatalog(b1.JSON, nil)
				if err != nil {
					continue
				}
				if msg := onlyAdded(v0, v1, fb); msg != "" {
					ctx.Violate(Violation{Kind: "wrong-output", Site: "locality", What: fmt.Sprintf("adding a fresh %s: %s", fb.Kind, msg), Input: in, Signature: "add-changed:" + fb.Kind})
				}
			}
		}
	}
	ctx.Cov.Component("catalog of a document vs catalog with one fresh declaration added (specification on the implementation)", ctx.Cov.Evaluations, len(ctx.Violations), "")
	c20DotPaths(ctx, r)
	c20InheritingInteractions(ctx)
}

// c20InheritingInteractions: hand-written documents whose INTERACTIONS hold schemas with an allOf rule (query, request and
// response headers and bodies — the passes that run over all interactions after the catalog is built) and whose types
// inherit from one another; one fresh declaration of every kind at every position: every old entry unchanged.
func c20InheritingInteractions(ctx *Ctx) {
	bases := []string{
		"TYPE @pet\n{\n  \"id\": 1,\n  \"name\": \"Tom\"\n}\n" +
			"GET /cats\n  200\n  { // {allOf: \"@pet\"}\n    \"color\": \"red\"\n  }\n" +
			"POST /cats\n  Request\n    Headers\n    { // {allOf: \"@pet\"}\n      \"h\": \"x\"\n    }\n    Body\n    { // {allOf: \"@pet\"}\n      \"b\": 2\n    }\n  201\n    Headers\n    { // {allOf: \"@pet\"}\n      \"r\": \"y\"\n    }\n    Body any\n",
		"GET /dogs\n  Query\n  { // {allOf: \"@q\"}\n    \"limit\": 10\n  }\n  200 any\n" +
			"TYPE @q\n{ // {allOf: \"@page\"}\n  \"sort\": \"asc\"\n}\nTYPE @page\n{\n  \"page\": 1\n}\n" +
			"URL /birds\n  PUT\n    Request\n    { // {allOf: [\"@q\", \"@page2\"]}\n      \"z\": 1\n    }\n    200 @q\nTYPE @page2\n{\n  \"size\": 5\n}\n",
	}
	cases := 0
	for bi, base := range bases {
		blocks := splitTopBlocks(base)
		b0 := RunProject(SingleFile([]byte("JSIGHT 0.3\n"+base)), false)
		if !b0.Accepted() {
			ctx.Break(fmt.Sprintf("locality: the hand-written base document %d is not accepted: %s", bi, b0.Verdict()))
			continue
		}
		_, v0, err := unorderedCatalog(b0.JSON, nil)
		if err != nil {
			continue
		}
		for _, fb := range freshBlocks(500 + bi) {
			ft, _ := (&ApiModel{Blocks: []BlockM{fb}}).Render(PlainStyle(), false)
			for pos := 0; pos <= len(blocks); pos++ {
				doc := "JSIGHT 0.3\n" + strings.Join(blocks[:pos], "") + string(ft) + strings.Join(blocks[pos:], "")
				b1 := RunProject(SingleFile([]byte(doc)), false)
				cases++
				ctx.Cov.Count([]byte(doc), true)
				ctx.Cov.Hit("added " + fb.Kind + " to a document whose interactions inherit")
				in := projectInput(SingleFile([]byte(doc)))
				in["op"] = "add"
				in["original"] = hx([]byte("JSIGHT 0.3\n" + base))
				if b1.Panic != "" {
					continue
				}
				if !b1.Accepted() {
					ctx.Violate(Violation{Kind: "wrong-output", Site: "locality", What: fmt.Sprintf("adding a fresh %s makes the document rejected: %s", fb.Kind, b1.Verdict()),
						Input: in, Observed: b1.Verdict(), Expected: "accepted", Signature: "add-rejected:" + fb.Kind})
					continue
				}
				_, v1, err := unorderedCatalog(b1.JSON, nil)
				if err != nil {
					continue
				}
				if msg := onlyAdded(v0, v1, fb); msg != "" {
					ctx.Violate(Violation{Kind: "wrong-output", Site: "locality", What: fmt.Sprintf("adding a fresh %s to a document whose interactions inherit through allOf: %s", fb.Kind, msg), Input: in, Signature: "add-changed:" + fb.Kind})
				}
			}
		}
	}
	ctx.Cov.Component("documents whose interactions hold allOf schemas + one fresh declaration of every kind at every position", cases, len(ctx.Violations), "")
}

// c20DotPaths: a fresh method whose path is textually unrelated to the existing ones but contains "." / ".." segments
// (so that a path-cleaning function would map it onto an existing path or onto the prefix of one), with a different
// parameter name, with or without a Path directive of its own: the document stays accepted, every old interaction is
// unchanged, exactly one interaction is added.
func c20DotPaths(ctx *Ctx, r *Rng) {
	bases := []struct{ text, path, param string }{
		{"GET /pets/{id}\n  200 any\n", "/pets", "id"},
		{"GET /pets/{id}\n  Path\n  {\"id\": 1}\n  200 any\n", "/pets", "id"},
		{"URL /shops/{shop}/items/{item}\n  Path\n  {\"shop\": 1, \"item\": 2}\n  GET\n    200 any\n", "/shops/{shop}/items", "item"},
		{"GET /{a}\n  200 any\n", "", "a"},
		{"GET /{a}\n  Path\n  {\"a\": 1}\n  200 any\nPOST /x/{b}\n  200 any\n", "", "a"},
	}
	cases, bad := 0, 0
	// paths whose FIRST segment is empty or ".": the automatic tag is that of the first real segment
	for _, pr := range [][2]string{{"/./cats", "/./dogs"}, {"\"//cats\"", "\"//dogs/{id}\""}, {"/", "\"//dogs\""}, {"/./cats/{id}", "/././dogs"}, {"/cats", "/./dogs"}} {
		for _, first := range []bool{false, true} {
			old := "JSIGHT 0.3\nGET " + pr[0] + "\n  200 any\n"
			doc := old + "POST " + pr[1] + "\n  200 any\n"
			if first {
				doc = "JSIGHT 0.3\nPOST " + pr[1] + "\n  200 any\nGET " + pr[0] + "\n  200 any\n"
			}
			b0 := RunProject(SingleFile([]byte(old)), false)
			b1 := RunProject(SingleFile([]byte(doc)), false)
			cases++
			ctx.Cov.Count([]byte(doc), true)
			ctx.Cov.Hit("fresh method whose path begins with an empty or '.' segment")
			if !b0.Accepted() || b1.Panic != "" {
				continue
			}
			in := projectInput(SingleFile([]byte(doc)))
			in["op"] = "add"
			in["original"] = hx([]byte(old))
			if !b1.Accepted() {
				bad++
				ctx.Violate(Violation{Kind: "wrong-output", Site: "locality", What: "adding the method POST " + pr[1] + " makes the document rejected: " + b1.Verdict(), Input: in, Signature: "add-rejected:dot-path"})
				continue
			}
			v0, _, e0 := ParseOJSON(b0.JSON)
			v1, _, e1 := ParseOJSON(b1.JSON)
			if e0 != nil || e1 != nil {
				continue
			}
			msg := ""
			for _, coll := range []string{"interactions", "tags"} {
				c0, c1 := v0.Get(coll), v1.Get(coll)
				if len(c1.Keys()) != len(c0.Keys())+1 {
					msg = fmt.Sprintf("%d %s became %d", len(c0.Keys()), coll, len(c1.Keys()))
				}
				for _, key := range c0.Keys() {
					if c1.Get(key) == nil || c1.Get(key).Canon(false) != c0.Get(key).Canon(false) {
						msg = "the entry " + coll + "[" + key + "] changed: " + trunc(c0.Get(key).Canon(false), 250) + " became " + trunc(c1.Get(key).Canon(false), 250)
					}
				}
			}
			if msg != "" {
				bad++
				ctx.Violate(Violation{Kind: "wrong-output", Site: "locality", What: "adding the method POST " + pr[1] + " (another first segment): " + msg, Input: in, Signature: "add-changed:dot-path"})
			}
		}
	}
	for bi, b := range bases {
		for k, mk := range []func(prefix, par string) string{
			func(prefix, par string) string { return "/v2/.." + prefix + "/{" + par + "}" },
			func(prefix, par string) string { return "/v2/." + prefix + "/{" + par + "}" },
			func(prefix, par string) string { return "/a/b/../.." + prefix + "/{" + par + "}" },
			func(prefix, par string) string { return prefix + "/./{" + par + "}" },
			func(prefix, par string) string { return prefix + "/zz/../{" + par + "}" },
			func(prefix, par string) string { return "/." + prefix + "/{" + par + "}/.." },
		} {
			for _, par := range []string{b.param, "other"} {
				for _, withPath := range []bool{false, true} {
					p := mk(b.path, par)
					fresh := "DELETE " + p + "\n"
					if withPath {
						fresh += "  Path\n  {\"" + par + "\": 7}\n"
					}
					fresh += "  200 any\n"
					for _, first := range []bool{false, true} {
						old := "JSIGHT 0.3\n" + b.text
						doc := old + fresh
						if first {
							doc = "JSIGHT 0.3\n" + fresh + b.text
						}
						b0 := RunProject(SingleFile([]byte(old)), false)
						b1 := RunProject(SingleFile([]byte(doc)), false)
						cases++
						ctx.Cov.Count([]byte(doc), true)
						ctx.Cov.Hit(fmt.Sprintf("fresh method with dot segments (shape %d)", k))
						if !b0.Accepted() || b1.Panic != "" {
							continue
						}
						in := projectInput(SingleFile([]byte(doc)))
						in["op"] = "add"
						in["original"] = hx([]byte(old))
						if !b1.Accepted() {
							bad++
							ctx.Violate(Violation{Kind: "wrong-output", Site: "locality", What: fmt.Sprintf("adding the method %q to a document with %q makes it rejected: %s", "DELETE "+p, strings.SplitN(b.text, "\n", 2)[0], b1.Verdict()),
								Input: in, Observed: b1.Verdict(), Expected: "accepted", Signature: "add-rejected:dot-path"})
							continue
						}
						v0, _, e0 := ParseOJSON(b0.JSON)
						v1, _, e1 := ParseOJSON(b1.JSON)
						if e0 != nil || e1 != nil {
							continue
						}
						i0, i1 := v0.Get("interactions"), v1.Get("interactions")
						msg := ""
						if len(i1.Keys()) != len(i0.Keys())+1 {
							msg = fmt.Sprintf("%d interactions became %d", len(i0.Keys()), len(i1.Keys()))
						}
						for _, key := range i0.Keys() {
							if i1.Get(key) == nil || i1.Get(key).Canon(false) != i0.Get(key).Canon(false) {
								msg = "the interaction " + key + " changed: " + trunc(i0.Get(key).Canon(false), 300) + " became " + trunc(i1.Get(key).Canon(false), 300)
							}
						}
						if msg != "" {
							bad++
							ctx.Violate(Violation{Kind: "wrong-output", Site: "locality", What: fmt.Sprintf("adding the method %q: %s", "DELETE "+p, msg), Input: in, Signature: "add-changed:dot-path"})
						}
					}
				}
			}
		}
		_ = bi
	}
	ctx.Cov.Component("a fresh method whose path has '.' / '..' segments added to documents with parameterised paths (specification on the implementation)", cases, bad, "")
}

// onlyAdded: new = old plus exactly the entries of the fresh block (and its automatic tag); no other entry changes.
func onlyAdded(old, nw *OVal, fb BlockM) string {
	for _, c := range append([]string{"info", "jsight"}, orderedCollections...) {
		co, cn := old.Get(c), nw.Get(c)
		if c == "info" || c == "jsight" {
			if co.Canon(true) != cn.Canon(true) {
				return c + " changed"
			}
			continue
		}
		added := 0
		for _, kv := range cn.Fields() {
			x := co.Get(kv.K)
			if x == nil {
				added++
				if !strings.Contains(strings.ToLower(kv.K), "fresh") {
					return fmt.Sprintf("%s[%s] appeared", c, kv.K)
				}
				continue
			}
			if x.Canon(true) != kv.V.Canon(true) {
				return fmt.Sprintf("%s[%s] changed: %s -> %s", c, kv.K, trunc(x.Canon(true), 300), trunc(kv.V.Canon(true), 300))
			}
		}
		for _, kv := range co.Fields() {
			if cn.Get(kv.K) == nil {
				return fmt.Sprintf("%s[%s] disappeared", c, kv.K)
			}
		}
		want := 0
		switch {
		case c == "userTypes" && fb.Kind == "type", c == "userEnums" && fb.Kind == "enum", c == "servers" && fb.Kind == "server":
			want = 1
		case c == "tags" && (fb.Kind == "tag" || fb.Kind == "method" || fb.Kind == "url"):
			want = 1
		case c == "interactions" && (fb.Kind == "method" || fb.Kind == "url"):
			want = 1
		}
		if added != want {
			return fmt.Sprintf("%s: %d entries added, expected %d", c, added, want)
		}
	}
	return ""
}


// c10TypeGraphs: user types that use one another in arbitrary graphs — chains, diamonds and CYCLES (through arrays,
// optional properties, "or" alternatives, and plain required references, which the library may refuse) — with further
// dependencies hanging off the members of a cycle. Every order of the declarations must give the same verdict and,
// when accepted, the same entries.
func c10TypeGraphs(ctx *Ctx, r *Rng) {
	n := ctx.Budget(150, 8000)
	cases, bad := 0, 0
	for i := 0; i < n && bad < 6; i++ {
		k := 3 + r.Intn(3)
		name := func(j int) string { return fmt.Sprintf("@g%d", j) }
		var blocks []string
		for j := 0; j < k; j++ {
			type prop struct{ val, note string }
			props := []prop{{fmt.Sprintf("  \"s%d\": %d", j, j), ""}}
			for t := 0; t < k; t++ {
				if t == j && !r.Chance(1, 6) {
					continue
				}
				// a cycle-friendly graph: forward edges often, backward edges sometimes
				p := 2
				if t < j {
					p = 1
				}
				if !r.Chance(p, 5) {
					continue
				}
				switch r.Intn(5) {
				case 0:
					props = append(props, prop{fmt.Sprintf("  \"r%d\": %s", t, name(t)), ""})
				case 1:
					props = append(props, prop{fmt.Sprintf("  \"r%d\": %s", t, name(t)), " // {optional: true}"})
				case 2:
					props = append(props, prop{fmt.Sprintf("  \"r%d\": [%s]", t, name(t)), ""})
				case 3:
					props = append(props, prop{fmt.Sprintf("  \"r%d\": %s | @leaf", t, name(t)), ""})
				default:
					props = append(props, prop{fmt.Sprintf("  \"r%d\": 1", t), fmt.Sprintf(" // {or: [\"%s\", {type: \"integer\"}]}", name(t))})
				}
			}
			// the order of the properties matters to the order in which the used types are met
			if r.Bool() {
				for a, b := 1, len(props)-1; a < b; a, b = a+1, b-1 {
					props[a], props[b] = props[b], props[a]
				}
			}
			var lines []string
			for q, pr := range props {
				l := pr.val
				if q < len(props)-1 {
					l += ","
				}
				lines = append(lines, l+pr.note)
			}
			blocks = append(blocks, "TYPE "+name(j)+"\n{\n"+strings.Join(lines, "\n")+"\n}\n")
		}
		blocks = append(blocks, "TYPE @leaf\n{\"l\": 1}\n")
		blocks = append(blocks, fmt.Sprintf("GET /g%d\n  200 %s\n", i, name(r.Intn(k))))
		render := func(p []int) []byte {
			var b strings.Builder
			b.WriteString("JSIGHT 0.3\n")
			for _, j := range p {
				b.WriteString(blocks[j])
			}
			return []byte(b.String())
		}
		id := make([]int, len(blocks))
		for j := range id {
			id[j] = j
		}
		b0 := RunProject(SingleFile(render(id)), false)
		if b0.Panic != "" {
			continue
		}
		var c0 string
		if b0.Accepted() {
			c0, _, _ = unorderedCatalog(b0.JSON, map[string][]string{})
			ctx.Cov.Hit("type graphs: accepted")
		} else {
			ctx.Cov.Hit("type graphs: rejected (" + firstWords(b0.Verdict(), 4) + ")")
		}
		var perms [][]int
		if len(blocks) <= 4 {
			allPerms(len(blocks), func(p []int) { perms = append(perms, append([]int(nil), p...)) })
		} else {
			for q := 0; q < ctx.Len(14, 80); q++ {
				perms = append(perms, permute(r, len(blocks)))
			}
		}
		for _, p := range perms {
			doc := render(p)
			b1 := RunProject(SingleFile(doc), false)
			cases++
			ctx.Cov.Count(doc, true)
			if b1.Panic != "" {
				continue
			}
			in := projectInput(SingleFile(doc))
			in["op"] = "permute"
			in["original"] = hx(render(id))
			if b1.Accepted() != b0.Accepted() {
				bad++
				ctx.Violate(Violation{Kind: "wrong-output", Site: "declaration order", What: fmt.Sprintf("reordering the declarations of user types that use one another changes the verdict: %s, in the original order: %s", b1.Verdict(), b0.Verdict()),
					Input: in, Observed: b1.Verdict(), Expected: b0.Verdict(), Signature: "perm-verdict-types"})
				break
			}
			if b1.Accepted() {
				c1, _, _ := unorderedCatalog(b1.JSON, map[string][]string{})
				if c1 != c0 {
					bad++
					ctx.Violate(Violation{Kind: "wrong-output", Site: "declaration order", What: "reordering the declarations of user types that use one another changes the content of an entry",
						Input: in, Signature: "perm-content-types"})
					break
				}
			}
		}
	}
	ctx.Cov.Component("user types using one another in graphs with cycles vs the permutations of their declarations: same verdict, same entries (specification on the implementation)", cases, bad, "")
}
