package main

import (
	"bytes"
	"fmt"
	"os"
	"os/exec"
	"path/filepath"
	"regexp"
	"strings"
	"syscall"
)

var allowedAxioms = map[string]bool{"propext": true, "Classical.choice": true, "Quot.sound": true}

func leanDir() string { return filepath.Join(verifDir(), "lean") }

func withLakeLock(f func()) {
	lf, err := os.OpenFile(filepath.Join(leanDir(), ".build.lock"), os.O_CREATE|os.O_RDWR, 0o644)
	if err == nil {
		_ = syscall.Flock(int(lf.Fd()), syscall.LOCK_EX)
		defer func() { _ = syscall.Flock(int(lf.Fd()), syscall.LOCK_UN); lf.Close() }()
	}
	f()
}

func runCmd(dir string, name string, args ...string) (string, error) {
	cmd := exec.Command(name, args...)
	cmd.Dir = dir
	var out bytes.Buffer
	cmd.Stdout = &out
	cmd.Stderr = &out
	err := cmd.Run()
	return out.String(), err
}

// runExtract regenerates lean/JSight/Gen/*.lean from /repo's working tree.
// It returns the list of problems (untranslatable constructs).
// extractNotes: constructs the translator could not render that do NOT break an obligation (the table concerned is
// declared unavailable and the tie falls back to the correspondence): recorded in the evidence.
var extractNotes []string

func runExtract() []string {
	extractNotes = nil
	bin := filepath.Join(verifDir(), "bin", "extract")
	out, err := runCmd(verifDir(), bin, "-repo", repoDir(), "-out", filepath.Join(leanDir(), "JSight", "Gen"),
		"-facts", filepath.Join(verifDir(), "gen", "facts.json"))
	var probs []string
	for _, l := range strings.Split(out, "\n") {
		if strings.HasPrefix(l, "PROBLEM ") {
			probs = append(probs, strings.TrimPrefix(l, "PROBLEM "))
		}
		if strings.HasPrefix(l, "NOTE ") {
			extractNotes = append(extractNotes, strings.TrimPrefix(l, "NOTE "))
		}
	}
	if err != nil && len(probs) == 0 {
		probs = append(probs, "extractor failed: "+strings.TrimSpace(lastLines(out, 5)))
	}
	return probs
}

func lastLines(s string, n int) string {
	ll := strings.Split(strings.TrimSpace(s), "\n")
	if len(ll) > n {
		ll = ll[len(ll)-n:]
	}
	return strings.Join(ll, "\n")
}

var reLeanErr = regexp.MustCompile(`(?m)^error: (\S+\.lean):(\d+):(\d+): (.*)$`)
var reDecl = regexp.MustCompile(`^\s*(?:@\[[^\]]*\]\s*)?(?:private\s+|protected\s+)?(theorem|lemma|def|example|instance|abbrev|inductive|structure)\s*(\S*)`)

// enclosingDecl finds the declaration containing line `line` of a Lean file.
func enclosingDecl(file string, line int) string {
	b, err := os.ReadFile(filepath.Join(leanDir(), file))
	if err != nil {
		return file
	}
	ll := strings.Split(string(b), "\n")
	for i := line - 1; i >= 0 && i < len(ll); i-- {
		if m := reDecl.FindStringSubmatch(ll[i]); m != nil {
			return fmt.Sprintf("%s %s (%s:%d)", m[1], m[2], file, line)
		}
	}
	return fmt.Sprintf("%s:%d", file, line)
}

var reTheorem = regexp.MustCompile(`(?m)^theorem\s+(\S+)`)
var reNamespace = regexp.MustCompile(`(?m)^namespace\s+(\S+)`)

// theoremNames lists the theorems of a Props file (fully qualified).
func theoremNames(module string) []string {
	file := filepath.Join(leanDir(), strings.ReplaceAll(module, ".", "/")+".lean")
	b, err := os.ReadFile(file)
	if err != nil {
		return nil
	}
	src := stripLeanComments(string(b))
	ns := ""
	if m := reNamespace.FindStringSubmatch(src); m != nil {
		ns = m[1] + "."
	}
	var names []string
	for _, m := range reTheorem.FindAllStringSubmatch(src, -1) {
		names = append(names, ns+m[1])
	}
	return names
}

func stripLeanComments(s string) string {
	var out strings.Builder
	depth := 0
	for i := 0; i < len(s); i++ {
		if i+1 < len(s) && s[i] == '/' && s[i+1] == '-' {
			depth++
			i++
			continue
		}
		if depth > 0 && i+1 < len(s) && s[i] == '-' && s[i+1] == '/' {
			depth--
			i++
			continue
		}
		if depth > 0 {
			if s[i] == '\n' {
				out.WriteByte('\n')
			}
			continue
		}
		if i+1 < len(s) && s[i] == '-' && s[i+1] == '-' {
			for i < len(s) && s[i] != '\n' {
				i++
			}
			out.WriteByte('\n')
			continue
		}
		out.WriteByte(s[i])
	}
	return out.String()
}

var reForbidden = regexp.MustCompile(`\bsorry\b|\badmit\b|(?m)^\s*axiom\s|native_decide|bv_decide|implemented_by|\bunsafe\s|maxHeartbeats\s+0\b`)

// forbiddenTokens greps the project (outside comments).
func forbiddenTokens() []string {
	var hits []string
	_ = filepath.Walk(filepath.Join(leanDir(), "JSight"), func(p string, info os.FileInfo, err error) error {
		if err != nil || info.IsDir() || !strings.HasSuffix(p, ".lean") {
			return nil
		}
		b, err := os.ReadFile(p)
		if err != nil {
			return nil
		}
		src := stripLeanComments(string(b))
		for i, l := range strings.Split(src, "\n") {
			if reForbidden.MatchString(l) {
				rel, _ := filepath.Rel(leanDir(), p)
				hits = append(hits, fmt.Sprintf("%s:%d: %s", rel, i+1, strings.TrimSpace(l)))
			}
		}
		return nil
	})
	return hits
}

// properties whose Lean targets import Gen/ScannerTable.lean
var usesScannerTable = map[string]bool{"C01": true, "C05": true, "C14": true, "C15": true, "C17": true}

// properties whose models rest on Gen/ParamTable.lean (the regenerated table of directive/parameter.go AppendParameter:
// C17 reads values back through it, C04 builds the catalog from the parameters it stores)
var usesParamTable = map[string]bool{"C17": true, "C04": true}

var reAxioms = regexp.MustCompile(`(?m)^'(.+)' (depends on axioms: \[([^\]]*)\]|does not depend on any axioms)`)

// obligations: extract -> lake build -> audit. Fills ctx.Cov and ctx.Broken.
func obligations(ctx *Ctx, pc *propCheck) {
	withLakeLock(func() {
		for _, p := range runExtract() {
			// a construct of the scanner outside the translated subset concerns the properties whose theorems are
			// about the scanner table; the others do not read that table
			if strings.HasPrefix(p, "scanner ") && !usesScannerTable[ctx.Prop] {
				ctx.Cov.Notes = append(ctx.Cov.Notes, "translator (scanner table, not used by this property): "+p)
				continue
			}
			// likewise a construct of AppendParameter outside the translated subset concerns the properties that
			// depend on the parameter table
			if strings.HasPrefix(p, "paramtable: ") && !usesParamTable[ctx.Prop] {
				ctx.Cov.Notes = append(ctx.Cov.Notes, "translator (parameter table, not used by this property): "+p)
				continue
			}
			ctx.Break("extract: " + p)
		}
		for _, n := range extractNotes {
			if strings.HasPrefix(n, "paramtable: ") && usesParamTable[ctx.Prop] {
				ctx.Cov.Notes = append(ctx.Cov.Notes, "the regenerated table of AppendParameter is NOT available on this tree (Gen.paramTableAvailable = false: its theorems hold vacuously; the model of AppendParameter is tied by its correspondence alone): "+n)
			}
		}
		targets := append([]string{}, pc.lean...)
		buildOK := true
		if len(targets) > 0 {
			out, err := runCmd(leanDir(), "lake", append([]string{"build"}, targets...)...)
			if err != nil {
				buildOK = false
				ms := reLeanErr.FindAllStringSubmatch(out, -1)
				seen := map[string]bool{}
				for _, m := range ms {
					var line int
					fmt.Sscanf(m[2], "%d", &line)
					file := m[1]
					if i := strings.Index(file, "JSight/"); i > 0 {
						file = file[i:]
					}
					d := enclosingDecl(file, line)
					if !seen[d] {
						seen[d] = true
						ctx.Break("proof obligation fails: " + d + ": " + m[4])
					}
				}
				if len(ms) == 0 {
					ctx.Break("lake build failed: " + lastLines(out, 6))
				}
			}
		}
		// executables (their failure is recorded by the caller through the missing binary)
		for _, e := range pc.exes {
			out, err := runCmd(leanDir(), "lake", "build", e)
			if err != nil {
				_ = os.Remove(filepath.Join(leanDir(), ".lake", "build", "bin", e))
				ctx.Cov.Notes = append(ctx.Cov.Notes, "exe "+e+" failed to build: "+lastLines(out, 3))
			}
		}
		// audit
		var names []string
		for _, t := range targets {
			names = append(names, theoremNames(t)...)
		}
		ctx.Cov.Obligations = len(names)
		ctx.Cov.CheckerCmd = "cd lean && lake build " + strings.Join(targets, " ") + " && lake env lean Audit/" + ctx.Prop + ".lean   (# print axioms of every property theorem)"
		if ctx.Thorough() {
			ctx.Cov.CheckerCmd += " && lake env leanchecker " + strings.Join(targets, " ")
		}
		if buildOK && len(names) > 0 {
			var src strings.Builder
			for _, t := range targets {
				fmt.Fprintf(&src, "import %s\n", t)
			}
			for _, n := range names {
				fmt.Fprintf(&src, "#print axioms %s\n", n)
			}
			adir := filepath.Join(leanDir(), "Audit")
			_ = os.MkdirAll(adir, 0o755)
			af := filepath.Join(adir, ctx.Prop+".lean")
			_ = os.WriteFile(af, []byte(src.String()), 0o644)
			out, err := runCmd(leanDir(), "lake", "env", "lean", "Audit/"+ctx.Prop+".lean")
			if err != nil {
				ctx.Break("axiom audit failed: " + lastLines(out, 4))
			}
			got := map[string]string{}
			for _, m := range reAxioms.FindAllStringSubmatch(out, -1) {
				got[m[1]] = m[3]
			}
			for _, n := range names {
				ax, ok := got[n]
				th := map[string]any{"name": n}
				if !ok {
					th["status"] = "missing"
					ctx.Break("theorem " + n + " was not checked")
				} else {
					bad := false
					var axs []string
					for _, a := range strings.Split(ax, ",") {
						a = strings.TrimSpace(a)
						if a == "" {
							continue
						}
						axs = append(axs, a)
						if !allowedAxioms[a] {
							bad = true
						}
					}
					th["axioms"] = axs
					if bad {
						th["status"] = "forbidden-axiom"
						ctx.Break("theorem " + n + " depends on a forbidden axiom: " + ax)
					} else {
						if strings.HasSuffix(n, "_partial") {
							th["status"] = "partial"
						} else {
							th["status"] = "proved"
						}
						ctx.Cov.Discharged++
					}
				}
				ctx.Cov.Theorems = append(ctx.Cov.Theorems, th)
			}
			if ctx.Thorough() {
				out, err := runCmd(leanDir(), "lake", append([]string{"env", "leanchecker"}, targets...)...)
				if err != nil {
					ctx.Break("leanchecker rejected the compiled proofs: " + lastLines(out, 4))
				} else {
					ctx.Cov.Notes = append(ctx.Cov.Notes, "leanchecker re-checked "+strings.Join(targets, " "))
				}
			}
		}
		for _, h := range forbiddenTokens() {
			ctx.Break("forbidden token in Lean source: " + h)
		}
	})
}

func setupMain() int {
	code := 0
	withLakeLock(func() {
		for _, p := range runExtract() {
			fmt.Println("extract problem:", p)
		}
		// the model executables must build; a theorem module that does not build is reported by the
		// check of the property it belongs to (broken obligation), it does not fail the setup
		out, err := runCmd(leanDir(), "lake", "build", "jsight-model", "jsight-scan", "jsight-ctx", "jsight-build")
		if err != nil {
			fmt.Println(lastLines(out, 30))
			code = 1
			return
		}
		out, err = runCmd(leanDir(), "lake", "build", "JSight")
		if err != nil {
			fmt.Println("warning: some theorem modules do not build (their checks will report it):")
			fmt.Println(lastLines(out, 12))
			return
		}
		fmt.Println(lastLines(out, 2))
	})
	return code
}
