package main

import (
	"fmt"
	"strings"

	"github.com/jsightapi/jsight-schema-go-library/fs"
	"github.com/jsightapi/jsight-schema-go-library/kit"
	"github.com/jsightapi/jsight-schema-go-library/notations/jschema"
	"github.com/jsightapi/jsight-schema-go-library/rules/enum"

	"github.com/jsightapi/jsight-api-go-library/scanner"
)

type Lex struct {
	Ty byte // K P A S J T O C E
	B  uint
	E1 uint // exclusive end (= end+1)
}

func lexTyCode(t scanner.LexemeType) byte {
	switch t {
	case scanner.Keyword:
		return 'K'
	case scanner.Parameter:
		return 'P'
	case scanner.Annotation:
		return 'A'
	case scanner.Schema:
		return 'S'
	case scanner.Json:
		return 'J'
	case scanner.Text:
		return 'T'
	case scanner.ContextExplicitOpening:
		return 'O'
	case scanner.ContextExplicitClosing:
		return 'C'
	case scanner.Enum:
		return 'E'
	}
	return '?'
}

// ScanAll runs the real scanner over the content. tail is "end", "diag <idx>" or "fault".
func ScanAll(content []byte) (lexs []Lex, tail string) {
	defer func() {
		if r := recover(); r != nil {
			tail = "fault"
		}
	}()
	s := scanner.NewJApiScanner(fs.NewFile("x", content))
	for i := 0; i < len(content)+10; i++ {
		lex, je := s.Next()
		if je != nil {
			return lexs, fmt.Sprintf("diag %d", je.Index())
		}
		if lex == nil {
			return lexs, "end"
		}
		lexs = append(lexs, Lex{lexTyCode(lex.Type()), uint(lex.Begin()), uint(lex.End()) + 1})
	}
	return lexs, "fault-too-many-lexemes"
}

func lexStr(lexs []Lex, tail string) string {
	var b strings.Builder
	for _, l := range lexs {
		fmt.Fprintf(&b, "%c:%d:%d ", l.Ty, l.B, l.E1)
	}
	b.WriteString(tail)
	return b.String()
}

// LibLen asks the schema library for the length of the body that starts at cur
// (the oracle of the scanner model): "<len>" or "e<pos>".
func LibLen(content []byte, cur int, isEnum bool) (ans string) {
	defer func() {
		if r := recover(); r != nil {
			ans = "panic"
		}
	}()
	if cur > len(content) {
		return "panic"
	}
	file := fs.NewFile("", content[cur:])
	var l uint
	var err error
	if isEnum {
		l, err = enum.FromFile(file).Len()
	} else {
		l, err = jschema.FromFile(file).Len()
	}
	if err != nil {
		e := kit.ConvertError(file, err)
		return fmt.Sprintf("e%d", e.Position())
	}
	return fmt.Sprintf("%d", l)
}

// ModelLex runs the scanner model on all inputs, answering oracle misses with the real library.
func ModelLex(ctx *Ctx, inputs [][]byte, hints [][]Lex) ([]string, error) {
	m, err := ctx.Model("jsight-scan")
	if err != nil {
		return nil, err
	}
	out := make([]string, len(inputs))
	oracle := make([]string, len(inputs))
	pending := make([]int, len(inputs))
	for i := range inputs {
		pending[i] = i
		// pre-seed the oracle with the answers the implementation's own run implies (body lexemes);
		// if the model asks anywhere else, the real library is asked below
		if hints != nil {
			for _, l := range hints[i] {
				if l.Ty == 'S' {
					oracle[i] += fmt.Sprintf(" s:%d:%d", l.B, l.E1-l.B)
				} else if l.Ty == 'E' {
					oracle[i] += fmt.Sprintf(" e:%d:%d", l.B, l.E1-l.B)
				}
			}
		}
	}
	for round := 0; len(pending) > 0 && round < 400; round++ {
		reqs := make([]string, len(pending))
		for k, i := range pending {
			reqs[k] = "lex " + hx(inputs[i]) + oracle[i]
		}
		resp, err := m.Batch(reqs)
		if err != nil {
			return out, err
		}
		var next []int
		for k, i := range pending {
			r := resp[k]
			if j := strings.LastIndex(r, "miss "); j >= 0 && (j == 0 || r[j-1] == ' ') {
				var kind string
				var cur int
				fmt.Sscanf(r[j:], "miss %s %d", &kind, &cur)
				ans := LibLen(inputs[i], cur, kind == "e")
				ctx.Cov.Hit("oracle call (" + kind + ")")
				if ans == "panic" {
					out[i] = strings.TrimSpace(r[:j] + "fault-lib")
					continue
				}
				oracle[i] += fmt.Sprintf(" %s:%d:%s", kind, cur, ans)
				next = append(next, i)
				continue
			}
			out[i] = r
		}
		pending = next
	}
	for _, i := range pending {
		out[i] = "oracle-loop"
	}
	return out, nil
}
