package main

import (
	"fmt"
	"os"
	"path/filepath"
)

// jsv run <file.jst> : process a file on disk (INCLUDEs resolved on disk) and print verdict + JSON.
func runFileMain(path string, indent bool) int {
	b, err := os.ReadFile(path)
	if err != nil {
		fmt.Fprintln(os.Stderr, err)
		return 2
	}
	abs, _ := filepath.Abs(path)
	p := Project{Files: map[string][]byte{abs: b}, Root: abs}
	r := RunProject(p, false)
	fmt.Println(r.Verdict())
	if r.Err != nil {
		fmt.Printf("line=%d quote=%q trace=%v\n", r.Err.Line, r.Err.Quote, r.Err.Trace)
	}
	if r.Panic != "" {
		fmt.Println(r.Stack)
	}
	if indent {
		fmt.Println(string(r.Indent))
	} else {
		fmt.Println(string(r.JSON))
	}
	return 0
}
