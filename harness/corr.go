package main

import (
	"fmt"
	"strings"
)

// Corr runs one correspondence component: the same requests are answered by the Lean model
// (through the line protocol) and by the implementation (impl callback, already canonicalised
// to the model's response syntax). Disagreements break the correspondence.
func Corr(ctx *Ctx, component, exe string, reqs []string, impl func(i int) string) int {
	m, err := ctx.Model(exe)
	if err != nil {
		ctx.Break("correspondence " + component + ": model not available: " + err.Error())
		return 0
	}
	resp, err := m.Batch(reqs)
	if err != nil {
		ctx.Break("correspondence " + component + ": " + err.Error())
	}
	dis := 0
	for i := range resp {
		want := strings.TrimRight(impl(i), " ")
		if strings.TrimRight(resp[i], " ") != want {
			dis++
			if dis <= 3 {
				ctx.Break(fmt.Sprintf("correspondence %s: request %q: implementation %q, model %q", component, trunc(reqs[i], 300), trunc(want, 300), trunc(resp[i], 300)))
			}
		}
	}
	ctx.Cov.Component(component, len(resp), dis, "")
	return dis
}

func trunc(s string, n int) string {
	if len(s) > n {
		return s[:n] + "…"
	}
	return s
}

// safely runs f and turns a panic into the string "fault".
func safely(f func() string) (out string) {
	defer func() {
		if r := recover(); r != nil {
			out = "fault"
		}
	}()
	return f()
}

func hxList(ss []string) string {
	parts := make([]string, len(ss))
	for i, s := range ss {
		parts[i] = hx([]byte(s))
	}
	return strings.Join(parts, " ")
}
