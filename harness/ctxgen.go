package main

import (
	"fmt"
	"strings"

	"github.com/jsightapi/jsight-schema-go-library/fs"

	"github.com/jsightapi/jsight-api-go-library/core"
	"github.com/jsightapi/jsight-api-go-library/directive"
	"github.com/jsightapi/jsight-api-go-library/jerr"
)

// CTok is one token of the context-level language: a directive kind (with the attributes the
// context resolution reads) or a closing parenthesis.
type CTok struct {
	Close    bool
	Kind     int // index into the directive table (directive.Enumeration)
	HasPath  bool
	Explicit bool
	Name     int // MACRO / PASTE name (0 = none)
	Annot    bool
}

func (t CTok) Proto() string {
	if t.Close {
		return ")"
	}
	fl := ""
	if t.HasPath {
		fl += "p"
	}
	if t.Explicit {
		fl += "x"
	}
	if t.Annot {
		fl += "a"
	}
	return fmt.Sprintf("%d:%s:%d", t.Kind, fl, t.Name)
}

func ctoksProto(tt []CTok) string {
	pp := make([]string, len(tt))
	for i, t := range tt {
		pp[i] = t.Proto()
	}
	return strings.Join(pp, " ")
}

var bodyKinds = map[directive.Enumeration]string{
	directive.Path: "{}", directive.Headers: "{}", directive.Query: "{}", directive.Type: "{}",
	directive.Enum: "[1]", directive.Params: "{}", directive.Result: "{}",
}

// renderCToks renders a token sequence as bytes with minimal valid parameters and bodies.
// offsets[i] = byte offset of the keyword of token i (or of the ")" ).
func renderCToks(tt []CTok) (content []byte, offsets []int) {
	var b strings.Builder
	for i, t := range tt {
		if t.Close {
			offsets = append(offsets, b.Len())
			b.WriteString(")\n")
			continue
		}
		k := directive.Enumeration(t.Kind)
		offsets = append(offsets, b.Len())
		line := ""
		switch k {
		case directive.Jsight:
			line = "JSIGHT 0.3"
		case directive.Info:
			line = "INFO"
		case directive.Title:
			line = `Title "t"`
		case directive.Version:
			line = "Version 1"
		case directive.Description:
			line = "Description\n    some text"
		case directive.Server:
			line = fmt.Sprintf("SERVER @s%d", i)
		case directive.BaseURL:
			line = `BaseUrl "http://x"`
		case directive.URL:
			line = fmt.Sprintf("URL /u%d", i)
		case directive.Get, directive.Post, directive.Put, directive.Patch, directive.Delete:
			line = k.String()
			if t.HasPath {
				line += fmt.Sprintf(" /m%d", i)
			}
		case directive.Body:
			line = "Body any"
		case directive.Request:
			line = "Request any"
		case directive.HTTPResponseCode:
			line = "200 any"
		case directive.Path, directive.Headers, directive.Query, directive.Params, directive.Result:
			line = k.String()
		case directive.Type:
			line = fmt.Sprintf("TYPE @t%d", i)
		case directive.Enum:
			line = "ENUM"
			if t.Name != 0 {
				line += fmt.Sprintf(" @e%d", t.Name)
			}
		case directive.Macro:
			line = "MACRO"
			if t.Name != 0 {
				line += fmt.Sprintf(" @m%d", t.Name)
			}
		case directive.Paste:
			line = "PASTE"
			if t.Name != 0 {
				line += fmt.Sprintf(" @m%d", t.Name)
			}
		case directive.Protocol:
			line = "Protocol json-rpc-2.0"
		case directive.Method:
			line = fmt.Sprintf("Method foo%d", i)
		case directive.TAG:
			line = fmt.Sprintf("TAG @g%d", i)
		case directive.Tags:
			line = "Tags @g1"
		default:
			line = k.String()
		}
		b.WriteString(line)
		if t.Annot {
			b.WriteString(" // note")
		}
		b.WriteString("\n")
		if t.Explicit {
			b.WriteString("(\n")
		}
		if body, ok := bodyKinds[k]; ok {
			b.WriteString(body + "\n")
		}
	}
	return []byte(b.String()), offsets
}

// canExplicit: kinds after which the scanner accepts "(" on the next line in this rendering.
func canExplicit(k directive.Enumeration) bool {
	return k != directive.Description && k != directive.Include
}

func showGoTree(d *directive.Directive, idOf func(*directive.Directive) int, b *strings.Builder) {
	fmt.Fprintf(b, "(%d", idOf(d))
	for _, c := range d.Children {
		b.WriteString(" ")
		showGoTree(c, idOf, b)
	}
	b.WriteString(")")
}

func showGoForest(dd []*directive.Directive, idOf func(*directive.Directive) int) string {
	var b strings.Builder
	b.WriteString("ok")
	for _, d := range dd {
		b.WriteString(" ")
		showGoTree(d, idOf, &b)
	}
	return b.String()
}

// classifyCtxErr maps a JApiError of the scan / paste phases onto the model's response syntax.
func classifyCtxErr(je *jerr.JApiError, idAt func(uint) int) string {
	m := je.Msg
	switch {
	case strings.Contains(m, jerr.IncorrectContextOfDirective):
		return fmt.Sprintf("err context %d", idAt(uint(je.Index())))
	case strings.Contains(m, jerr.ThereIsNoExplicitContextForClosure):
		return "err noclose"
	case strings.Contains(m, "not all explicit contexts are closed"):
		return "err unclosed"
	case strings.Contains(m, "recursion is prohibited"):
		return fmt.Sprintf("err recursion %d", idAt(uint(je.Index())))
	case strings.Contains(m, "macro not found"):
		return fmt.Sprintf("err paste %d", idAt(uint(je.Index())))
	}
	return "other: " + m
}

type ctxRun struct {
	Scan  string // forest or error of the scan phase
	Paste string // forest or error after paste expansion ("" if the scan failed)
	Other bool   // rejected for a reason outside the context model (rendering not scannable, …)
	Panic string
}

// runCtx runs the scan phase and the macro/paste phase of the real library on rendered tokens.
func runCtx(tt []CTok) (res ctxRun) {
	content, offsets := renderCToks(tt)
	idAt := func(off uint) int {
		for i, o := range offsets {
			if uint(o) == off {
				return i
			}
		}
		return -1
	}
	idOf := func(d *directive.Directive) int {
		_, b, _ := d.VerifKeywordCoords()
		return idAt(b)
	}
	defer func() {
		if r := recover(); r != nil {
			res.Panic = fmt.Sprint(r)
		}
	}()
	p := SingleFile(content)
	curInput = &p
	defer func() { curInput = nil }()
	c := core.NewJApiCore(fs.NewFile("root.jst", content))
	if je := c.VerifScanOnly(); je != nil {
		res.Scan = classifyCtxErr(je, idAt)
		res.Other = strings.HasPrefix(res.Scan, "other")
		return res
	}
	res.Scan = showGoForest(c.VerifDirectives(), idOf)
	if je := c.VerifPasteOnly(); je != nil {
		res.Paste = classifyCtxErr(je, idAt)
		// macro-level errors (annotation / name / empty / duplicate) are all "err macro <id>";
		// every error below a PASTE is re-attributed to the (outermost) PASTE: "err paste <id>"
		id := idAt(uint(je.Index()))
		if id >= 0 && !tt[id].Close && !strings.HasPrefix(res.Paste, "err recursion") {
			switch directive.Enumeration(tt[id].Kind) {
			case directive.Macro:
				res.Paste = fmt.Sprintf("err macro %d", id)
			case directive.Paste:
				res.Paste = fmt.Sprintf("err paste %d", id)
			}
		}
		return res
	}
	res.Paste = showGoForest(c.VerifDirectivesWithPastes(), idOf)
	return res
}

func parseCToks(src string) []CTok {
	var tt []CTok
	for _, f := range strings.Fields(src) {
		if f == ")" {
			tt = append(tt, CTok{Close: true})
			continue
		}
		pp := strings.Split(f, ":")
		if len(pp) != 3 {
			continue
		}
		var t CTok
		fmt.Sscanf(pp[0], "%d", &t.Kind)
		t.HasPath = strings.Contains(pp[1], "p")
		t.Explicit = strings.Contains(pp[1], "x")
		t.Annot = strings.Contains(pp[1], "a")
		fmt.Sscanf(pp[2], "%d", &t.Name)
		tt = append(tt, t)
	}
	return tt
}

// plausibleCToks generates a sequence that mostly resolves: at each step a kind admitted by one of the
// open directives (so that walk-ups of every depth occur), a top-level kind, or a ")" when one is open.
func plausibleCToks(r *Rng, n int, withMacros bool) []CTok {
	var tt []CTok
	type fr struct {
		kind     directive.Enumeration
		explicit bool
	}
	var stack []fr // innermost first
	kinds := make([]directive.Enumeration, 0, 30)
	for k := 0; k < 30; k++ {
		e := directive.Enumeration(k)
		if e == directive.Include || e == directive.Jsight {
			continue
		}
		if !withMacros && (e == directive.Macro || e == directive.Paste) {
			continue
		}
		kinds = append(kinds, e)
	}
	for len(tt) < n {
		hasExplicit := false
		for _, f := range stack {
			if f.explicit {
				hasExplicit = true
			}
		}
		if hasExplicit && r.Chance(1, 5) {
			// close the innermost explicit frame
			j := 0
			for j < len(stack) && !stack[j].explicit {
				j++
			}
			stack = stack[j+1:]
			tt = append(tt, CTok{Close: true})
			continue
		}
		// candidate kinds admitted at some depth (not crossing an explicit frame), or root
		var cands []directive.Enumeration
		var depths []int
		for _, k := range kinds {
			placed := false
			for d, f := range stack {
				if f.kind.IsAllowedForDirectiveContext(k) {
					cands = append(cands, k)
					depths = append(depths, d)
					placed = true
					break
				}
				if f.explicit {
					placed = true // blocked
					break
				}
			}
			if !placed && k.IsAllowedForRootContext() {
				cands = append(cands, k)
				depths = append(depths, len(stack))
			}
		}
		if len(cands) == 0 || r.Chance(1, 25) {
			// an inadmissible one now and then
			k := kinds[r.Intn(len(kinds))]
			tt = append(tt, CTok{Kind: int(k), Name: 1})
			break
		}
		i := r.Intn(len(cands))
		// prefer deeper walk-ups sometimes
		if r.Chance(1, 3) {
			best := i
			for j := range cands {
				if depths[j] > depths[best] && r.Bool() {
					best = j
				}
			}
			i = best
		}
		k := cands[i]
		t := CTok{Kind: int(k)}
		if canExplicit(k) && r.Chance(1, 3) {
			t.Explicit = true
		}
		if k.IsHTTPRequestMethod() && r.Chance(1, 3) {
			t.HasPath = true
		}
		if k == directive.Macro || k == directive.Paste || k == directive.Enum {
			t.Name = 1 + r.Intn(3)
		}
		tt = append(tt, t)
		if depths[i] >= len(stack) {
			stack = nil
		} else {
			stack = stack[depths[i]:]
		}
		// a method with its own path ends the context of the URL it would otherwise nest in
		for k.IsHTTPRequestMethod() && t.HasPath && len(stack) > 0 && stack[0].kind == directive.URL && !stack[0].explicit {
			stack = stack[1:]
		}
		stack = append([]fr{{k, t.Explicit}}, stack...)
	}
	return tt
}
