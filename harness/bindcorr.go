package main

import (
	"fmt"
	"regexp"
	"sort"
	"strconv"
	"strings"

	"github.com/jsightapi/jsight-schema-go-library/fs"

	"github.com/jsightapi/jsight-api-go-library/core"
)

// Correspondence of Model/PathBind.lean (op "bind" of jsight-build) with BuildResourceMethodsPathVariables:
// the Path directives the real code collected (hook VerifRawPathVariableDetails) are handed to the model; its
// verdict and the path variables it gives every HTTP interaction are compared with the real outcome.

var reAlready = regexp.MustCompile(`^The parameter ("(?:[^"\\]|\\.)*") has already been defined earlier$`)
var reUnused = regexp.MustCompile(`^Has unused parameters ("(?:[^"\\]|\\.)*") in schema$`)
var reAtID = regexp.MustCompile(`@\d+`)

type bindCase struct {
	proto string
	real  string
	idxs  []int // candidates for the directive index of a diagnostic
	skip  string
}

func bindCaseOf(content []byte) (bc bindCase) {
	defer func() {
		if r := recover(); r != nil {
			bc.skip = "panic (C01 matter)"
		}
	}()
	p := SingleFile(content)
	curInput = &p
	defer func() { curInput = nil }()
	c := core.NewJApiCore(fs.NewFile("root.jst", content))
	je := c.ValidateJAPI()
	raws := c.VerifRawPathVariableDetails()
	var b strings.Builder
	b.WriteString("bind")
	for i, v := range raws {
		var pp, props []string
		for _, x := range v.Params {
			pp = append(pp, hxs(x[0])+":"+hxs(x[1]))
		}
		for _, x := range v.Props {
			props = append(props, hxs(x))
		}
		fmt.Fprintf(&b, " P%d;%s;%s", i, strings.Join(pp, ","), strings.Join(props, ","))
	}
	if je != nil {
		var name string
		switch {
		case reAlready.MatchString(je.Msg):
			q, _ := strconv.Unquote(reAlready.FindStringSubmatch(je.Msg)[1])
			name = "already " + hxs(q)
		case reUnused.MatchString(je.Msg):
			q, _ := strconv.Unquote(reUnused.FindStringSubmatch(je.Msg)[1])
			var nn []string
			for _, n := range strings.Split(q, ", ") {
				nn = append(nn, hxs(n))
			}
			name = "unused " + strings.Join(nn, ",")
		default:
			bc.skip = "rejected by another stage"
			return
		}
		bc.real = "err " + name
		for i, v := range raws {
			if v.Begin == uint(je.Index()) {
				bc.idxs = append(bc.idxs, i)
			}
		}
		bc.proto = b.String()
		return
	}
	js, err := c.Catalog().ToJson()
	if err != nil {
		bc.skip = "serialisation error (C09 matter)"
		return
	}
	doc, _, perr := ParseOJSON(js)
	if perr != nil {
		bc.skip = "unreadable JSON"
		return
	}
	var outs []string
	for _, kv := range doc.Get("interactions").Fields() {
		if kv.V.Get("protocol").Str() != "http" {
			continue
		}
		path := kv.V.Get("path").Str()
		fmt.Fprintf(&b, " Q%s", hxs(path))
		var names []string
		for _, ch := range kv.V.Path("pathVariables", "schema", "content", "children").Items() {
			names = append(names, hxs(ch.Get("key").Str()))
		}
		outs = append(outs, hxs(path)+"="+strings.Join(names, "+"))
	}
	bc.proto = b.String()
	bc.real = "ok " + strings.Join(outs, ";")
	return
}

func compareBind(bc bindCase, model string) string {
	if strings.HasPrefix(bc.real, "ok ") {
		if strings.TrimRight(reAtID.ReplaceAllString(model, ""), " ") == strings.TrimRight(bc.real, " ") {
			return ""
		}
		return "path variables differ"
	}
	f := strings.Fields(model)
	if len(f) < 3 || f[0] != "err" {
		return "the model accepts, the implementation rejects"
	}
	idx, _ := strconv.Atoi(f[2])
	names := ""
	if len(f) > 3 {
		nn := strings.Split(f[3], ",")
		if f[1] == "unused" { // the message lists the names sorted
			dec := make([]string, len(nn))
			for i, n := range nn {
				dec[i] = n
			}
			sort.Slice(dec, func(i, j int) bool { return string(unhx(dec[i])) < string(unhx(dec[j])) })
			nn = dec
		}
		names = strings.Join(nn, ",")
	}
	if "err "+f[1]+" "+names != bc.real {
		return "diagnostic differs"
	}
	for _, i := range bc.idxs {
		if i == idx {
			return ""
		}
	}
	return "diagnostic located at another Path directive"
}

func bindCorrespondence(ctx *Ctx, docs [][]byte, label string) {
	mp, err := ctx.Model("jsight-build")
	if err != nil {
		ctx.Break("correspondence path binding: model not available: " + err.Error())
		return
	}
	var cases []bindCase
	var reqs []string
	var idx []int
	for i, d := range docs {
		bc := bindCaseOf(d)
		cases = append(cases, bc)
		if bc.skip != "" {
			ctx.Cov.Hit("bind: " + bc.skip)
			continue
		}
		reqs = append(reqs, bc.proto)
		idx = append(idx, i)
	}
	outs, err := mp.Batch(reqs)
	if err != nil {
		ctx.Break("correspondence path binding: " + err.Error())
		return
	}
	bad := 0
	for k, out := range outs {
		bc := cases[idx[k]]
		ctx.Cov.Count([]byte(bc.proto), strings.Count(bc.proto, " P") >= 2)
		if strings.HasPrefix(bc.real, "ok") {
			ctx.Cov.Hit("bind: accepted")
		} else {
			ctx.Cov.Hit("bind: " + firstWords(bc.real, 2))
		}
		if why := compareBind(bc, out); why != "" {
			bad++
			if bad <= 3 {
				ctx.Break(fmt.Sprintf("correspondence path binding (%s): document %q: implementation %q at %v, model %q", why, trunc(string(docs[idx[k]]), 600), trunc(bc.real, 600), bc.idxs, trunc(out, 600)))
			}
		}
	}
	ctx.Cov.Component("path binding: Model/PathBind.lean (jsight-build bind) vs BuildResourceMethodsPathVariables on "+label, len(reqs), bad, "")
}
