// Command racestress is built with -race by the C16 check: concurrent use of the generated collections
// and concurrent validations of documents, compared with the results obtained alone.
package main

import (
	"bytes"
	"encoding/json"
	"fmt"
	"os"
	"path/filepath"
	"strings"
	"sync"

	"github.com/jsightapi/jsight-schema-go-library/fs"

	"github.com/jsightapi/jsight-api-go-library/catalog"
	"github.com/jsightapi/jsight-api-go-library/core"
	"github.com/jsightapi/jsight-api-go-library/directive"
)

func validate(name string, content []byte) string {
	c := core.NewJApiCore(fs.NewFile(name, content), core.WithFixedSeedForRegex())
	if je := c.ValidateJAPI(); je != nil {
		return "rejected: " + je.Error()
	}
	b, err := c.Catalog().ToJson()
	if err != nil {
		return "json error: " + err.Error()
	}
	return string(b)
}

func head(s string) string {
	if len(s) > 120 {
		return s[:120]
	}
	return s
}

func main() {
	if len(os.Args) < 3 {
		fmt.Println("usage: racestress <dir with .jst files> <rounds>")
		os.Exit(2)
	}
	var rounds int
	fmt.Sscanf(os.Args[2], "%d", &rounds)
	failed := false

	// 0. FIRST use of the library in this process is concurrent (lazily initialised tables)
	var firstDocs [][]byte
	var firstNames []string
	_ = filepath.Walk(os.Args[1], func(p string, info os.FileInfo, err error) error {
		if err == nil && !info.IsDir() && strings.HasSuffix(p, ".jst") && len(firstDocs) < 16 {
			if b, err := os.ReadFile(p); err == nil {
				firstDocs = append(firstDocs, b)
				firstNames = append(firstNames, p)
			}
		}
		return nil
	})
	firstRes := make([]string, len(firstDocs))
	{
		var wg sync.WaitGroup
		for i := range firstDocs {
			wg.Add(1)
			go func(i int) {
				defer wg.Done()
				firstRes[i] = validate(firstNames[i], firstDocs[i])
			}(i)
		}
		wg.Wait()
	}
	for i := range firstDocs {
		if again := validate(firstNames[i], firstDocs[i]); again != firstRes[i] {
			fmt.Println("FAIL first concurrent use differs from a later solo run for", firstNames[i])
			failed = true
		}
	}

	// 1. collections: concurrent writers and readers
	for r := 0; r < rounds; r++ {
		s := &catalog.Servers{}
		var wg sync.WaitGroup
		const writers, perWriter = 8, 50
		for w := 0; w < writers; w++ {
			wg.Add(1)
			go func(w int) {
				defer wg.Done()
				for i := 0; i < perWriter; i++ {
					k := fmt.Sprintf("k%d", (w*perWriter+i)%97)
					s.Set(k, &catalog.Server{Annotation: fmt.Sprint(w)})
					s.Update(k, func(v *catalog.Server) *catalog.Server {
						return &catalog.Server{Annotation: v.Annotation, BaseUrl: "u"}
					})
					_ = s.Has(k)
					_, _ = s.Get(k)
				}
			}(w)
		}
		for rd := 0; rd < 4; rd++ {
			wg.Add(1)
			go func() {
				defer wg.Done()
				for i := 0; i < 30; i++ {
					_ = s.Each(func(k string, v *catalog.Server) error { return nil })
					_, _ = json.Marshal(s)
					_ = s.Len()
				}
			}()
		}
		wg.Wait()
		// every key exactly once in the order, none lost
		seen := map[string]int{}
		_ = s.Each(func(k string, v *catalog.Server) error {
			seen[k]++
			if v == nil || v.BaseUrl != "u" {
				fmt.Println("FAIL lost update for", k)
				failed = true
			}
			return nil
		})
		if len(seen) != 97 || s.Len() != 97 {
			fmt.Println("FAIL keys:", len(seen), s.Len())
			failed = true
		}
		for k, n := range seen {
			if n != 1 {
				fmt.Println("FAIL key", k, "appears", n, "times")
				failed = true
			}
		}
		// Update is an atomic read-modify-write: concurrent Updates of ONE key that derive the new value from the
		// old one (a counter) lose nothing, also while other keys are set and the collection is serialised
		{
			cs := &catalog.Servers{}
			cs.Set("@counter", &catalog.Server{Annotation: "0"})
			ts := &catalog.Tags{}
			ts.Set("@counter", &catalog.Tag{Title: "0"})
			var wg3 sync.WaitGroup
			const updaters, perUpdater = 8, 200
			for w := 0; w < updaters; w++ {
				wg3.Add(1)
				go func(w int) {
					defer wg3.Done()
					for i := 0; i < perUpdater; i++ {
						cs.Update("@counter", func(v *catalog.Server) *catalog.Server {
							var n int
							fmt.Sscanf(v.Annotation, "%d", &n)
							return &catalog.Server{Annotation: fmt.Sprint(n + 1)}
						})
						ts.Update("@counter", func(v *catalog.Tag) *catalog.Tag {
							var n int
							fmt.Sscanf(v.Title, "%d", &n)
							return &catalog.Tag{Title: fmt.Sprint(n + 1)}
						})
						if i%16 == 0 {
							cs.Set(fmt.Sprintf("@other%d_%d", w, i), &catalog.Server{})
							_, _ = json.Marshal(cs)
						}
					}
				}(w)
			}
			wg3.Wait()
			if got := cs.GetValue("@counter").Annotation; got != fmt.Sprint(updaters*perUpdater) {
				fmt.Println("FAIL lost update: Servers.Update of one key from", updaters, "goroutines counted", got, "of", updaters*perUpdater)
				failed = true
			}
			if got := ts.GetValue("@counter").Title; got != fmt.Sprint(updaters*perUpdater) {
				fmt.Println("FAIL lost update: Tags.Update of one key from", updaters, "goroutines counted", got, "of", updaters*perUpdater)
				failed = true
			}
		}
		set := catalog.NewStringSet()
		var wg2 sync.WaitGroup
		for w := 0; w < 8; w++ {
			wg2.Add(1)
			go func(w int) {
				defer wg2.Done()
				for i := 0; i < 50; i++ {
					set.Add(fmt.Sprintf("s%d", (w+i)%31))
					_ = set.Data()
				}
			}(w)
		}
		wg2.Wait()
		if len(set.Data()) != 31 {
			fmt.Println("FAIL string set size", len(set.Data()))
			failed = true
		}
	}

	// 2. independent validations at the same time vs alone; one catalog serialised from many goroutines
	var docs [][]byte
	var names []string
	_ = filepath.Walk(os.Args[1], func(p string, info os.FileInfo, err error) error {
		if err == nil && !info.IsDir() && strings.HasSuffix(p, ".jst") {
			if b, err := os.ReadFile(p); err == nil {
				docs = append(docs, b)
				names = append(names, p)
			}
		}
		return nil
	})
	solo := make([]string, len(docs))
	for i, d := range docs {
		solo[i] = validate(names[i], d)
	}
	for r := 0; r < rounds; r++ {
		var wg sync.WaitGroup
		for i := range docs {
			wg.Add(1)
			go func(i int) {
				defer wg.Done()
				if got := validate(names[i], docs[i]); got != solo[i] {
					fmt.Println("FAIL concurrent result differs for", names[i])
					failed = true
				}
			}(i)
		}
		wg.Wait()
	}
	if len(docs) > 0 {
		c := core.NewJApiCore(fs.NewFile(names[0], docs[0]), core.WithFixedSeedForRegex())
		if je := c.ValidateJAPI(); je == nil {
			first, _ := c.Catalog().ToJson()
			var wg sync.WaitGroup
			for g := 0; g < 16; g++ {
				wg.Add(1)
				go func() {
					defer wg.Done()
					for i := 0; i < 10; i++ {
						b, _ := c.Catalog().ToJson()
						bi, _ := c.Catalog().ToJsonIndent()
						if !bytes.Equal(b, first) || len(bi) == 0 {
							fmt.Println("FAIL concurrent serialisation differs")
							failed = true
						}
					}
				}()
			}
			wg.Wait()
		}
	}
	// 3. Option VALUES shared between projects: one option value given to many cores, alone and together with another
	// one, all at the same time; every result equals the result obtained alone with freshly made options
	{
		macroDoc := []byte("JSIGHT 0.3\nGET /cats\n  PASTE @ok\nMACRO @ok\n  200 any\n")
		plainDoc := []byte("JSIGHT 0.3\nGET /dogs\n  200 any\n")
		with := func(content []byte, oo ...core.Option) string {
			c := core.NewJApiCore(fs.NewFile("shared.jst", content), append(oo, core.WithFixedSeedForRegex())...)
			if je := c.ValidateJAPI(); je != nil {
				return "rejected: " + je.Error()
			}
			b, _ := c.Catalog().ToJson()
			return string(b)
		}
		soloTrustedMacro := with(macroDoc, core.WithBannedDirectives(directive.Include))
		soloTrustedPlain := with(plainDoc, core.WithBannedDirectives(directive.Include))
		soloSandboxMacro := with(macroDoc, core.WithBannedDirectives(directive.Include), core.WithBannedDirectives(directive.Macro, directive.Paste))
		soloSandboxPlain := with(plainDoc, core.WithBannedDirectives(directive.Include), core.WithBannedDirectives(directive.Macro, directive.Paste))
		for r := 0; r < rounds; r++ {
			noInclude := core.WithBannedDirectives(directive.Include)
			noMacros := core.WithBannedDirectives(directive.Macro, directive.Paste)
			var wg sync.WaitGroup
			for g := 0; g < 32; g++ {
				wg.Add(1)
				go func(g int) {
					defer wg.Done()
					var got, want string
					switch g % 4 {
					case 0:
						got, want = with(macroDoc, noInclude, noMacros), soloSandboxMacro
					case 1:
						got, want = with(macroDoc, noInclude), soloTrustedMacro
					case 2:
						got, want = with(plainDoc, noInclude, noMacros), soloSandboxPlain
					default:
						got, want = with(plainDoc, noInclude), soloTrustedPlain
					}
					if got != want {
						fmt.Println("FAIL project", g, "made with shared option values differs from the same project alone with fresh options:", head(got))
						failed = true
					}
				}(g)
			}
			wg.Wait()
			// and afterwards, alone again
			if got := with(macroDoc, noInclude); got != soloTrustedMacro {
				fmt.Println("FAIL an option value was changed by its use together with another one:", head(got))
				failed = true
			}
		}
	}
	if failed {
		os.Exit(1)
	}
	fmt.Println("racestress ok:", len(docs), "documents,", rounds, "rounds")
}
